import Cutadapt.Index
/-! `_make_index` as a fold: what the dictionary holds for a key after any number of adapters. -/
namespace Cutadapt.Index
open Cutadapt Cutadapt.Adapters

theorem list_snoc_induction {α : Type} {motive : List α → Prop} (nil : motive [])
    (append_singleton : ∀ (l : List α) (a : α), motive l → motive (l ++ [a])) : ∀ l, motive l := by
  intro l
  rw [← List.reverse_reverse l]
  induction l.reverse with
  | nil => exact nil
  | cons a t ih => rw [List.reverse_cons]; exact append_singleton _ _ ih

/-- one execution of the inner loop body: adapter `ai` offers `(key, e, m)` -/
structure Ev where
  ai : Nat
  key : Bytes
  e : Nat
  m : Nat
deriving Repr, DecidableEq

/-- what happens to *one* key when an event for that key is processed: the entry and the "marked ambiguous" flag -/
def keyStep (st : Option Entry × Bool) (ev : Ev) : Option Entry × Bool :=
  match st.1 with
  | none => (some (ev.ai, ev.e, ev.m), st.2)
  | some (_, _, om) =>
    if ev.m < om then st
    else (some (ev.ai, ev.e, ev.m), st.2 || om == ev.m)

/-- state of one key after the events `l` (all for that key), in order -/
def keyState (l : List Ev) : Option Entry × Bool := l.foldl keyStep (none, false)

def adapterEvents (aia : Adapter × Nat) : List Ev :=
  (adapterItems aia.1).map (fun it => ⟨aia.2, it.1, it.2.1, it.2.2⟩)

/-- all loop-body executions of `_make_index`, in order -/
def events (adapters : List Adapter) : List Ev := adapters.zipIdx.flatMap adapterEvents

def forKey (s : Bytes) (l : List Ev) : List Ev := l.filter (fun ev => ev.key == s)

theorem keyState_append_one (l : List Ev) (ev : Ev) : keyState (l ++ [ev]) = keyStep (keyState l) ev := by
  simp [keyState, List.foldl_append]

theorem forKey_append (s : Bytes) (l l' : List Ev) : forKey s (l ++ l') = forKey s l ++ forKey s l' := by
  simp [forKey]

theorem forKey_single_eq (ev : Ev) : forKey ev.key [ev] = [ev] := by simp [forKey]
theorem forKey_single_ne (s : Bytes) (ev : Ev) (h : ev.key ≠ s) : forKey s [ev] = [] := by
  simp [forKey, h]

/-- the invariant of the loops of `_make_index` -/
def Inv {D : Type} (ops : DictOps D) (evs : List Ev) (st : Build D) : Prop :=
  ∀ s, ops.get? st.index s = (keyState (forKey s evs)).1 ∧
       (ops.get? st.ambSet s).isSome = (keyState (forKey s evs)).2 ∧
       (s ∈ st.ambKeys ↔ (keyState (forKey s evs)).2 = true)

theorem inv_init {D : Type} (ops : DictOps D) (hl : ops.Lawful) : Inv ops [] ⟨ops.empty, [], ops.empty, []⟩ := by
  intro s
  simp [forKey, keyState, hl.get?_empty]

theorem inv_lengths {D : Type} (ops : DictOps D) (evs : List Ev) (st : Build D) (ls : List Nat)
    (h : Inv ops evs st) : Inv ops evs { st with lengths := ls } := h

theorem inv_addEntry {D : Type} (ops : DictOps D) (hl : ops.Lawful) (evs : List Ev) (st : Build D)
    (ai : Nat) (addLen : Bool) (it : Bytes × Nat × Nat) (h : Inv ops evs st) :
    Inv ops (evs ++ [⟨ai, it.1, it.2.1, it.2.2⟩]) (addEntry ops ai addLen st it) := by
  obtain ⟨key, e, m⟩ := it
  intro s
  obtain ⟨h1, h2, h3⟩ := h s
  obtain ⟨k1, k2, k3⟩ := h key
  rw [forKey_append]
  by_cases hk : key = s
  · subst hk
    have hs : forKey key [(⟨ai, key, e, m⟩ : Ev)] = [⟨ai, key, e, m⟩] := forKey_single_eq ⟨ai, key, e, m⟩
    rw [hs, keyState_append_one]
    generalize keyState (forKey key evs) = ks at h1 h2 h3
    obtain ⟨cur, amb⟩ := ks
    simp only at h1 h2 h3
    simp only [addEntry]
    cases cur with
    | none =>
      simp only [h1, keyStep]
      refine ⟨by simp [hl.get?_insert], h2, h3⟩
    | some c =>
      obtain ⟨oa, oe, om⟩ := c
      simp only [h1, keyStep]
      by_cases hlt : m < om
      · simp only [hlt, if_true]
        exact ⟨h1, h2, h3⟩
      · simp only [hlt, if_false]
        by_cases htie : (om == m) = true
        · cases hamb : (ops.get? st.ambSet key).isNone with
          | true =>
            have hambF : amb = false := by
              rw [← h2]; cases hg : ops.get? st.ambSet key <;> simp_all
            simp only [htie, Bool.true_and, if_true]
            refine ⟨by simp [hl.get?_insert], ?_, ?_⟩
            · simp [hl.get?_insert]
            · simp
          | false =>
            have hambT : amb = true := by
              rw [← h2]; cases hg : ops.get? st.ambSet key <;> simp_all
            simp only [htie, Bool.and_false, Bool.false_eq_true, if_false]
            refine ⟨by simp [hl.get?_insert], ?_, ?_⟩
            · rw [h2, hambT]; rfl
            · rw [h3, hambT]; simp
        · have htie' : (om == m) = false := by simpa using htie
          simp only [htie', Bool.false_and, Bool.false_eq_true, if_false, Bool.or_false]
          exact ⟨by simp [hl.get?_insert], h2, h3⟩
  · have hs : forKey s [(⟨ai, key, e, m⟩ : Ev)] = [] := forKey_single_ne s ⟨ai, key, e, m⟩ hk
    rw [hs, List.append_nil]
    have hne : ∀ (d : D) (v : Entry), ops.get? (ops.insert d key v) s = ops.get? d s := by
      intro d v; rw [hl.get?_insert]; simp [hk]
    have hmem : ∀ l : List Bytes, s ∈ key :: l ↔ s ∈ l := by
      intro l
      have : ¬ s = key := fun h => hk h.symm
      simp [this]
    simp only [addEntry]
    split
    · split
      · exact ⟨h1, h2, h3⟩
      · split
        · refine ⟨by simp [hne, h1], by simp [hne, h2], ?_⟩
          simp only [hmem]; exact h3
        · exact ⟨by simp [hne, h1], h2, h3⟩
    · exact ⟨by simp [hne, h1], h2, h3⟩

theorem inv_foldl_items {D : Type} (ops : DictOps D) (hl : ops.Lawful) (ai : Nat) (addLen : Bool)
    (items : List (Bytes × Nat × Nat)) : ∀ (evs : List Ev) (st : Build D), Inv ops evs st →
    Inv ops (evs ++ items.map (fun it => ⟨ai, it.1, it.2.1, it.2.2⟩)) (items.foldl (addEntry ops ai addLen) st) := by
  induction items with
  | nil => intro evs st h; simpa using h
  | cons it rest ih =>
    intro evs st h
    have := ih _ _ (inv_addEntry ops hl evs st ai addLen it h)
    simpa [List.append_assoc] using this

theorem inv_addAdapter {D : Type} (ops : DictOps D) (hl : ops.Lawful) (evs : List Ev) (st : Build D)
    (aia : Adapter × Nat) (h : Inv ops evs st) : Inv ops (evs ++ adapterEvents aia) (addAdapter ops st aia) := by
  obtain ⟨a, ai⟩ := aia
  have := inv_foldl_items ops hl ai a.indels (adapterItems a) evs st h
  simp only [addAdapter, adapterEvents]
  split
  · exact this
  · exact inv_lengths ops _ _ _ this

theorem inv_foldl_adapters {D : Type} (ops : DictOps D) (hl : ops.Lawful) (l : List (Adapter × Nat)) :
    ∀ (evs : List Ev) (st : Build D), Inv ops evs st →
    Inv ops (evs ++ l.flatMap adapterEvents) (l.foldl (addAdapter ops) st) := by
  induction l with
  | nil => intro evs st h; simpa using h
  | cons aia rest ih =>
    intro evs st h
    have := ih _ _ (inv_addAdapter ops hl evs st aia h)
    simpa [List.append_assoc] using this

theorem inv_buildAll {D : Type} (ops : DictOps D) (hl : ops.Lawful) (adapters : List Adapter) :
    Inv ops (events adapters) (buildAll ops adapters) := by
  have := inv_foldl_adapters ops hl adapters.zipIdx [] _ (inv_init ops hl)
  simpa [events, buildAll] using this

theorem get?_eraseAll {D : Type} (ops : DictOps D) (hl : ops.Lawful) (keys : List Bytes) :
    ∀ (d : D) (s : Bytes), ops.get? (keys.foldl ops.erase d) s = if s ∈ keys then none else ops.get? d s := by
  induction keys with
  | nil => intro d s; simp
  | cons k rest ih =>
    intro d s
    simp only [List.foldl_cons, ih, hl.get?_erase, List.mem_cons]
    by_cases h1 : s ∈ rest
    · simp [h1]
    · by_cases h2 : k = s
      · subst h2; simp
      · have : ¬ s = k := fun h => h2 h.symm
        simp [h1, h2, this]

/-- **The dictionary after `_make_index`**, key by key: before the final deletion the entry of `s` and its ambiguity
    mark are the per-key state after the events for `s`; the final index drops exactly the marked keys. -/
theorem makeIndex_get? {D : Type} (ops : DictOps D) (hl : ops.Lawful) (adapters : List Adapter) (isPrefix : Bool) (s : Bytes) :
    ops.get? (buildAll ops adapters).index s = (keyState (forKey s (events adapters))).1 ∧
    (s ∈ (buildAll ops adapters).ambKeys ↔ (keyState (forKey s (events adapters))).2 = true) ∧
    ops.get? (makeIndex ops adapters isPrefix).index s =
      (if (keyState (forKey s (events adapters))).2 then none else (keyState (forKey s (events adapters))).1) := by
  obtain ⟨h1, _, h3⟩ := inv_buildAll ops hl adapters s
  refine ⟨h1, h3, ?_⟩
  simp only [makeIndex, get?_eraseAll ops hl, List.mem_reverse, h1]
  by_cases hb : (keyState (forKey s (events adapters))).2 = true
  · simp [hb, h3.mpr hb]
  · have : s ∉ (buildAll ops adapters).ambKeys := fun hm => hb (h3.mp hm)
    simp [hb, this]

/-! ### What the per-key state means -/

theorem keyState_nil : keyState [] = (none, false) := rfl

theorem keyState_none_iff (l : List Ev) : (keyState l).1 = none ↔ l = [] := by
  induction l using list_snoc_induction with
  | nil => simp [keyState]
  | append_singleton l ev _ =>
    rw [keyState_append_one]
    simp only [keyStep]
    constructor
    · intro h
      split at h
      · simp at h
      · split at h
        · rename_i h0 _; simp [h0] at h
        · simp at h
    · intro h; simp at h

/-- the entry is one of the offers seen … -/
theorem keyState_mem (l : List Ev) (ai e m : Nat) (h : (keyState l).1 = some (ai, e, m)) :
    ∃ ev ∈ l, ev.ai = ai ∧ ev.e = e ∧ ev.m = m := by
  induction l using list_snoc_induction with
  | nil => simp [keyState] at h
  | append_singleton l ev ih =>
    rw [keyState_append_one] at h
    simp only [keyStep] at h
    split at h
    · simp only [Option.some.injEq, Prod.mk.injEq] at h
      exact ⟨ev, by simp, h.1, h.2.1, h.2.2⟩
    · split at h
      · obtain ⟨ev', hm, h'⟩ := ih h
        exact ⟨ev', by simp [hm], h'⟩
      · simp only [Option.some.injEq, Prod.mk.injEq] at h
        exact ⟨ev, by simp, h.1, h.2.1, h.2.2⟩

/-- … and no offer seen had more matches -/
theorem keyState_max (l : List Ev) (ai e m : Nat) (h : (keyState l).1 = some (ai, e, m)) :
    ∀ ev ∈ l, ev.m ≤ m := by
  induction l using list_snoc_induction generalizing ai e m with
  | nil => simp
  | append_singleton l ev ih =>
    rw [keyState_append_one] at h
    simp only [keyStep] at h
    intro ev' hev'
    simp only [List.mem_append, List.mem_singleton] at hev'
    split at h
    · rename_i h0
      have : l = [] := (keyState_none_iff l).mp h0
      subst this
      simp only [Option.some.injEq, Prod.mk.injEq] at h
      rcases hev' with hev' | hev'
      · simp at hev'
      · subst hev'; omega
    · rename_i oa oe om h0
      split at h
      · rename_i hlt
        rw [h0] at h
        simp only [Option.some.injEq, Prod.mk.injEq] at h
        rcases hev' with hev' | hev'
        · have := ih oa oe om h0 ev' hev'; omega
        · subst hev'; omega
      · rename_i hlt
        simp only [Option.some.injEq, Prod.mk.injEq] at h
        rcases hev' with hev' | hev'
        · have := ih oa oe om h0 ev' hev'; omega
        · subst hev'; omega

/-- the ambiguity mark is only ever added -/
theorem keyState_amb_mono (l l' : List Ev) (h : (keyState l).2 = true) : (keyState (l ++ l')).2 = true := by
  induction l' using list_snoc_induction with
  | nil => simpa using h
  | append_singleton l' ev ih =>
    rw [← List.append_assoc, keyState_append_one]
    simp only [keyStep]
    split
    · exact ih
    · split
      · exact ih
      · simp [ih]

/-- a key is marked exactly when some offer tied with the entry that was current *at that time* -/
theorem keyState_amb_iff (l : List Ev) :
    (keyState l).2 = true ↔
      ∃ pre ev post, l = pre ++ ev :: post ∧ ∃ oa oe, (keyState pre).1 = some (oa, oe, ev.m) := by
  induction l using list_snoc_induction with
  | nil => simp [keyState]
  | append_singleton l ev ih =>
    constructor
    · intro h
      rw [keyState_append_one] at h
      simp only [keyStep] at h
      have old : (keyState l).2 = true → ∃ pre ev' post, l ++ [ev] = pre ++ ev' :: post ∧ ∃ oa oe, (keyState pre).1 = some (oa, oe, ev'.m) := by
        intro h'
        obtain ⟨pre, ev', post, hl', hx⟩ := ih.mp h'
        exact ⟨pre, ev', post ++ [ev], by simp [hl'], hx⟩
      split at h
      · exact old h
      · rename_i oa oe om h0
        split at h
        · exact old h
        · simp only [Bool.or_eq_true, beq_iff_eq] at h
          rcases h with h | h
          · exact old h
          · exact ⟨l, ev, [], by simp, oa, oe, by rw [h0, h]⟩
    · rintro ⟨pre, ev', post, hl', oa, oe, hx⟩
      rcases List.eq_nil_or_concat post with hp | ⟨post', x, hp⟩
      · subst hp
        have : l = pre ∧ ev = ev' := by
          have := List.append_inj' hl' rfl
          exact ⟨this.1, by simpa using this.2⟩
        obtain ⟨rfl, rfl⟩ := this
        rw [keyState_append_one]
        simp only [keyStep, hx]
        simp
      · subst hp
        have hl2 : l ++ [ev] = (pre ++ ev' :: post') ++ [x] := by simp [hl']
        have : l = pre ++ ev' :: post' := (List.append_inj' hl2 rfl).1
        have hamb : (keyState l).2 = true := ih.mpr ⟨pre, ev', post', this, oa, oe, hx⟩
        have := keyState_amb_mono l [ev] hamb
        exact this

/-- no two offers with the same number of matches ⇒ never marked -/
theorem keyState_noties (l : List Ev) (h : l.Pairwise (fun a b => a.m ≠ b.m)) : (keyState l).2 = false := by
  cases hb : (keyState l).2 with
  | false => rfl
  | true =>
    exfalso
    obtain ⟨pre, ev, post, hl', oa, oe, hx⟩ := (keyState_amb_iff l).mp hb
    obtain ⟨ev0, hm0, _, _, hm⟩ := keyState_mem pre oa oe ev.m hx
    subst hl'
    rw [List.pairwise_append] at h
    exact h.2.2 ev0 hm0 ev (by simp) hm

end Cutadapt.Index
