import Cutadapt.Proofs.ParserParams
/-! Lookup lemmas for parameter dictionaries and what `postParams` does to lookups (C18). -/
namespace Cutadapt.ParserProofs
open Cutadapt.Parser Cutadapt.Notation

theorem Params.get_filter_key (p : Params) (f : Key → Bool) (k : Key) :
    Params.get (p.filter (fun kv => f kv.1)) k = if f k then Params.get p k else none := by
  induction p with
  | nil => simp [Params.get]
  | cons x r ih =>
    obtain ⟨k', v⟩ := x
    by_cases hk : k' = k
    · subst hk
      by_cases hf : f k' = true
      · simp [List.filter, hf, Params.get]
      · simp only [Bool.not_eq_true] at hf
        simp [List.filter, hf, Params.get, ih]
    · by_cases hf : f k' = true
      · simp [List.filter, hf, Params.get, hk, ih]
      · simp only [Bool.not_eq_true] at hf
        simp [List.filter, hf, Params.get, hk, ih]

theorem Params.get_erase (p : Params) (k k' : Key) :
    Params.get (p.erase k) k' = if k' = k then none else Params.get p k' := by
  unfold Params.erase
  have := Params.get_filter_key p (fun x => decide (x ≠ k)) k'
  simp only [decide_not] at this
  simp only [ne_eq, decide_not]
  rw [this]
  by_cases h : k' = k <;> simp [h]

theorem Params.get_update (base over : Params) (k : Key) :
    Params.get (base.update over) k = match Params.get over k with | some v => some v | none => Params.get base k := by
  unfold Params.update
  rw [Params.get_append, Params.get_filter_key base (fun x => !over.has x) k]
  cases h : Params.get over k with
  | some v => simp
  | none => simp [Params.has, h]

theorem Params.get_clamp (p : Params) (n : Nat) (k : Key) :
    Params.get (p.map (fun kv => if kv.1 = .minOverlap then (kv.1, Value.int n) else kv)) k =
      if k = .minOverlap then (Params.get p k).map (fun _ => Value.int n) else Params.get p k := by
  induction p with
  | nil => simp [Params.get]
  | cons x r ih =>
    obtain ⟨k', v⟩ := x
    by_cases h1 : k' = .minOverlap
    · subst h1
      by_cases h2 : k = .minOverlap
      · subst h2; simp [Params.get]
      · have h2' : Key.minOverlap ≠ k := fun e => h2 e.symm
        simp [Params.get, h2, h2', ih]
    · by_cases h3 : k' = k
      · subst h3; simp [Params.get, h1]
      · simp [Params.get, h1, h3, ih]

theorem Params.get_singleton (k k' : Key) (v : Value) : Params.get [(k, v)] k' = if k = k' then some v else none := by
  simp [Params.get]

/-- no disallowed key is present -/
theorem any_bad_false (cls : Cls) (kw : Params) (h : ∀ k, kwAllowed cls k = false → Params.get kw k = none) :
    kw.any (fun kv => !kwAllowed cls kv.1) = false := by
  cases hh : kw.any (fun kv => !kwAllowed cls kv.1) with
  | false => rfl
  | true =>
    exfalso
    rw [List.any_eq_true] at hh
    obtain ⟨kv, hmem, hbad⟩ := hh
    have hb : kwAllowed cls kv.1 = false := by simpa using hbad
    have hhas : Params.has kw kv.1 = true := (Params.has_iff_mem_keys kw kv.1).mpr (List.mem_map.mpr ⟨kv, hmem, rfl⟩)
    rw [Params.has, h kv.1 hb] at hhas
    exact Bool.noConfusion hhas

/-! ## the written dict -/

theorem paramDict_keys (ps : List Param) : (paramDict ps).map (·.1) = ps.map (fun p => p.name.key) := by
  simp [paramDict]

theorem paramDict_get_none (ps : List Param) (k : Key) (hk : ∀ n : PName, n.key ≠ k) : Params.get (paramDict ps) k = none := by
  cases h : Params.get (paramDict ps) k with
  | none => rfl
  | some v =>
    exfalso
    have : Params.has (paramDict ps) k = true := by simp [Params.has, h]
    rw [Params.has_iff_mem_keys, paramDict_keys] at this
    obtain ⟨p, _, hp⟩ := List.mem_map.mp this
    exact hk p.name hp

theorem get_mem {d : Params} {k : Key} {v : Value} (h : Params.get d k = some v) : (k, v) ∈ d := by
  induction d with
  | nil => simp [Params.get] at h
  | cons x r ih =>
    obtain ⟨k', v'⟩ := x
    simp only [Params.get] at h
    by_cases hk : k' = k
    · simp only [hk, if_true, Option.some.injEq] at h; simp [hk, h]
    · simp only [hk, if_false] at h; simp [ih h]

/-- `o`/`min_overlap` carry an integer -/
theorem paramDict_o_int {ps : List Param} (hwf : ∀ q ∈ ps, q.WF) {v : Value} (h : Params.get (paramDict ps) .minOverlap = some v) :
    v.isFloat = false := by
  have hm := get_mem h
  simp only [paramDict, List.mem_map] at hm
  obtain ⟨q, hq, hkv⟩ := hm
  simp only [Prod.mk.injEq] at hkv
  have hw := hwf q hq
  unfold Param.WF at hw
  have hname : q.name = .o ∨ q.name = .minOverlap := by
    cases hn : q.name <;> simp [hn, PName.key] at hkv <;> simp
  rcases hname with hn | hn <;> (rw [hn] at hw; obtain ⟨n, hv⟩ := hw; rw [← hkv.2]; simp [Param.val, hv, NumLit.value, Value.isFloat])

/-- flags carry no value: they are `True` -/
theorem paramDict_flag {ps : List Param} (hwf : ∀ q ∈ ps, q.WF) {k : Key} (hk : k = .anywhere ∨ k = .rightmost ∨ k = .required)
    {v : Value} (h : Params.get (paramDict ps) k = some v) : v = .bool true := by
  have hm := get_mem h
  simp only [paramDict, List.mem_map] at hm
  obtain ⟨q, hq, hkv⟩ := hm
  simp only [Prod.mk.injEq] at hkv
  have hw := hwf q hq
  unfold Param.WF at hw
  rw [← hkv.2]
  rcases hk with rfl | rfl | rfl <;>
    (cases hn : q.name <;> simp [hn, PName.key] at hkv <;> (rw [hn] at hw; simp [Param.val, hw]))

/-! ## `postParams` -/

/-- lookups after the `optional`/`noindels` rewriting -/
def postGet (d : Params) (k : Key) : Option Value :=
  match k with
  | .indels => if d.has .noindels then some (.bool false) else Params.get d .indels
  | .required => if d.has .optional then some (.bool false) else Params.get d .required
  | .optional => none
  | .noindels => none
  | k => Params.get d k

theorem postParams_ok (d : Params) (h1 : ¬ (d.has .optional = true ∧ d.has .required = true))
    (h2 : ¬ (d.has .indels = true ∧ d.has .noindels = true)) :
    ∃ P, postParams d = .ok P ∧ ∀ k, Params.get P k = postGet d k := by
  unfold postParams
  simp only [h1, h2, if_false]
  refine ⟨_, rfl, ?_⟩
  intro k
  have e1 : ∀ (a : Params) (k : Key), Params.has a k = (Params.get a k).isSome := fun _ _ => rfl
  simp only [e1] at h1 h2 ⊢
  by_cases ho : (Params.get d .optional).isSome = true <;> by_cases hn : (Params.get d .noindels).isSome = true
  all_goals
    simp only [ho, hn, if_true, if_false, Params.get_append, Params.get_erase, Params.get_singleton, postGet, e1]
  all_goals (cases k <;> simp_all [Params.get_append, Params.get_erase, Params.get_singleton])

theorem postParams_err (d : Params) (h : (d.has .optional = true ∧ d.has .required = true) ∨ (d.has .indels = true ∧ d.has .noindels = true)) :
    ∃ e, postParams d = .error e ∧ e.isCmdline = true := by
  unfold postParams
  by_cases h1 : d.has .optional = true ∧ d.has .required = true
  · exact ⟨.optionalRequired, by simp [h1], rfl⟩
  · rcases h with h | h
    · exact absurd h h1
    · exact ⟨.indelsNoindels, by simp [h1, h], rfl⟩

end Cutadapt.ParserProofs
