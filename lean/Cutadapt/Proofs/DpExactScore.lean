import Cutadapt.Proofs.DpExactFound
/-! Exactness of the banded DP, part 6: score bookkeeping, last-row events, frozen states. -/
namespace Cutadapt.Align.Exact
open Cutadapt Cutadapt.Align Cutadapt.Spec Cutadapt.Generated Cutadapt.Align.Sound

/-! ### column-independent per-cell invariants -/

theorem fillCells_pointwise (cfg : Cfg) (ascii : Bool) (q : Sym) (last : Nat) (Q : Nat → Entry → Prop)
    (hcell : ∀ i b diag cur prev, Q i diag → Q (i+1) cur → Q i prev → Q (i+1) (cell cfg b diag cur prev)) :
    ∀ (olds : List Entry) (rs : List Sym) (i0 : Nat) (diag prevNew : Entry),
    Q i0 diag → Q i0 prevNew → AllFrom Q (i0+1) olds →
    AllFrom Q (i0+1) (fillCells cfg ascii q last (i0+1) diag prevNew rs olds)
  | [], rs, i0, diag, prevNew, _, _, _ => by cases rs <;> simp [fillCells, AllFrom]
  | cur :: olds, [], i0, diag, prevNew, _, _, h => by simpa [fillCells] using h
  | cur :: olds, r :: rs, i0, diag, prevNew, hd, hp, ⟨hcur, hrest⟩ => by
    unfold fillCells
    split
    · have hc := hcell i0 (charsEqual ascii r q) diag cur prevNew hd hcur hp
      exact ⟨hc, fillCells_pointwise cfg ascii q last Q hcell olds rs (i0+1) cur _ hcur hc hrest⟩
    · exact ⟨hcur, hrest⟩

theorem stepColumn_pointwise (cfg : Cfg) (ascii : Bool) (refE : List Sym) (q : Sym) (last : Nat) (Q : Nat → Entry → Prop)
    (hcell : ∀ i b diag cur prev, Q i diag → Q (i+1) cur → Q i prev → Q (i+1) (cell cfg b diag cur prev))
    (hcell0 : ∀ c0, Q 0 c0 → Q 0 (stepCell0 cfg c0)) (m : Nat) (col : List Entry) (hlen : col.length = m + 1)
    (hlen' : (stepColumn cfg ascii refE q last col).length = m + 1)
    (h : ∀ i, i ≤ m → Q i (col.getD i default)) :
    ∀ i, i ≤ m → Q i ((stepColumn cfg ascii refE q last col).getD i default) := by
  have hall : AllFrom Q 0 col :=
    allFrom_of_getD col 0 (fun t ht => by rw [Nat.zero_add]; exact h t (by omega))
  match col, hlen, hlen', hall with
  | c0 :: rest, hlen, hlen', ⟨h0, hrest⟩ =>
    have hf := fillCells_pointwise cfg ascii q last Q hcell rest refE 0 c0 (stepCell0 cfg c0) h0 (hcell0 c0 h0) hrest
    have hnew : AllFrom Q 0 (stepColumn cfg ascii refE q last (c0 :: rest)) := ⟨hcell0 c0 h0, hf⟩
    intro i hi
    have := allFrom_getD _ 0 hnew i (by rw [hlen']; omega)
    simpa using this

/-- a cell with positive cost has lost at least one point of score against its row -/
def ScoreLt (i : Nat) (e : Entry) : Prop := 0 < e.cost → e.score < (i : Int)

/-- both score facts about a cell -/
def ScoreInv (i : Nat) (e : Entry) : Prop := e.score ≤ (i : Int) ∧ ScoreLt i e

theorem cell_scoreInv (cfg : Cfg) (i : Nat) (b : Bool) (diag cur prev : Entry)
    (hd : ScoreInv i diag) (hcur : ScoreInv (i+1) cur) (hp : ScoreInv i prev) :
    ScoreInv (i+1) (cell cfg b diag cur prev) := by
  obtain ⟨hd1, hd2⟩ := hd
  obtain ⟨hc1, hc2⟩ := hcur
  obtain ⟨hp1, hp2⟩ := hp
  unfold ScoreInv ScoreLt at *
  unfold cell
  simp only [matchScore, mismatchScore, deletionScore, insertionScore]
  split
  · refine ⟨by simp only; omega, ?_⟩
    simp only; intro h0; have := hd2 h0; omega
  · split
    · exact ⟨by simp only; omega, by simp only; intro _; omega⟩
    · split
      · exact ⟨by simp only; omega, by simp only; intro _; omega⟩
      · exact ⟨by simp only; omega, by simp only; intro _; omega⟩

theorem stepCell0_scoreInv (cfg : Cfg) (c0 : Entry) (h : ScoreInv 0 c0) : ScoreInv 0 (stepCell0 cfg c0) := by
  obtain ⟨h1, h2⟩ := h
  unfold stepCell0 ScoreInv ScoreLt at *
  split
  · exact ⟨by simpa using h1, by simpa using h2⟩
  · simp only [insertionScore]
    exact ⟨by omega, fun _ => by omega⟩

theorem initEntry_scoreLt {cfg : Cfg} (j0 : Nat) (hcase : j0 = 0 ∨ cfg.startInQuery = true) (i : Nat) :
    ScoreLt i (initEntry cfg j0 i) := by
  unfold initEntry ScoreLt
  simp only [deletionScore]
  split
  · next h1 h2 =>
    have : j0 = 0 := by rcases hcase with h | h; exact h; rw [h2] at h; cases h
    subst this
    simp only; intro h0
    have : i ≠ 0 := by intro hi; subst hi; simp at h0
    omega
  · next h1 h2 =>
    have : j0 = 0 := by rcases hcase with h | h; exact h; rw [h2] at h; cases h
    subst this
    simp
  · simp only; intro h0
    have : i ≠ 0 := by intro hi; subst hi; simp at h0
    omega
  · simp only; intro h0
    have : i ≠ 0 := by intro hi; subst hi; simp at h0
    omega


/-! ### score bookkeeping of the loop state -/

def BestS (m : Nat) (b : Best) : Prop :=
  b.found = true → b.score ≤ (b.refStop : Int) ∧ (0 < b.cost → b.score < (b.refStop : Int)) ∧ b.refStop ≤ m ∧
    (b.cost = 0 → b.score = (b.refStop : Int) + min b.origin 0)

structure InvS (cfg : Cfg) (ref query : Bytes) (j : Nat) (s : LoopState) : Prop where
  cells : ∀ i, i ≤ ref.length → ScoreInv i (s.col.getD i default)
  bestS : BestS ref.length s.best
  bestQ : s.best.found = true → s.best.queryStop ≤ j

theorem columnLoop_S {cfg : Cfg} {ref query : Bytes} (hwf : cfg.WF ref.length) {j : Nat}
    (hj : j < query.length) {s : LoopState} (h : Inv cfg ref query j s) (hs : InvS cfg ref query j s) :
    InvS cfg ref query (j+1) (columnLoop cfg (compareAscii cfg) (encodeRef cfg ref) ref ref.length s
      (j+1, (encodeQuery cfg query)[j]'(by rw [encodeQuery_length]; exact hj))) := by
  by_cases hd : s.done = true
  · unfold columnLoop
    simp only [hd, if_true]
    exact ⟨hs.cells, hs.bestS, fun hf => by have := hs.bestQ hf; omega⟩
  · have hd' : s.done = false := by simpa using hd
    have hcol := h.col hd'
    have hmlen : (mkCtx cfg ref query).ref.length = ref.length := encodeRef_length cfg ref
    have hj' : j < (mkCtx cfg ref query).query.length := by
      show j < (encodeQuery cfg query).length
      rw [encodeQuery_length]; exact hj
    have hstep : ColInv (mkCtx cfg ref query) (j+1) s.last (stepColumn cfg (compareAscii cfg) (encodeRef cfg ref)
        (encodeQuery cfg query)[j] s.last s.col) := stepColumn_inv hwf.indel_pos hj' hcol
    have hcells := stepColumn_pointwise cfg (compareAscii cfg) (encodeRef cfg ref) (encodeQuery cfg query)[j] s.last
      ScoreInv (cell_scoreInv cfg) (stepCell0_scoreInv cfg) ref.length s.col (by rw [hcol.len, hmlen])
      (by rw [hstep.len, hmlen]) hs.cells
    have hok := (hstep.cells ref.length (by rw [hmlen]; exact Nat.le_refl _)).2.1
    have hsi := hcells ref.length (Nat.le_refl _)
    rw [columnLoop_eq _ _ _ _ _ _ _ _ hd']
    generalize stepColumn cfg (compareAscii cfg) (encodeRef cfg ref) (encodeQuery cfg query)[j] s.last s.col = col'
      at hcells hok hsi ⊢
    have hold : InvS cfg ref query (j+1) ⟨col', ref.length, s.best, 0, 0, false⟩ :=
      ⟨hcells, hs.bestS, fun hf => by have := hs.bestQ hf; show s.best.queryStop ≤ j + 1; omega⟩
    split
    · exact ⟨hcells, hs.bestS, hold.bestQ⟩
    · split
      · split
        · exact ⟨hcells, fun _ => ⟨hsi.1, hsi.2, Nat.le_refl _, hok.2⟩, fun _ => Nat.le_refl _⟩
        · exact ⟨hcells, hs.bestS, hold.bestQ⟩
      · exact ⟨hcells, hs.bestS, hold.bestQ⟩

theorem initState_S (cfg : Cfg) (ref query : Bytes)
    (hcase : minNOf cfg ref.length query.length = 0 ∨ cfg.startInQuery = true) :
    InvS cfg ref query (minNOf cfg ref.length query.length) (initState cfg ref.length query.length) := by
  refine ⟨fun i hi => ?_, fun hf => (by cases hf), fun hf => (by cases hf)⟩
  show ScoreInv i (((List.range (ref.length + 1)).map (initEntry cfg _)).getD i default)
  rw [getD_map_range _ _ _ _ hi]
  refine ⟨?_, initEntry_scoreLt _ hcase i⟩
  unfold initEntry
  simp only [deletionScore]
  split <;> simp only <;> omega

/-- what happens in the last row of column `j+1` when the true value there is within the band -/
theorem row_event {cfg : Cfg} {ref query : Bytes} (hwf : cfg.WF ref.length) {j : Nat}
    (hj : j < query.length) {s : LoopState} (h : Inv cfg ref query j s) (hu : InvU cfg ref query j s)
    (hd : s.done = false) (hsq : cfg.stopInQuery = true)
    (hD : D (mkCtx cfg ref query) (minNOf cfg ref.length query.length) ref.length
      (j + 1 - minNOf cfg ref.length query.length) ≤ cfg.k) :
    ∃ e : Entry,
      e.cost ≤ D (mkCtx cfg ref query) (minNOf cfg ref.length query.length) ref.length
        (j + 1 - minNOf cfg ref.length query.length) ∧
      Good (mkCtx cfg ref query) ref.length (j+1) e ∧ ScoreOK ref.length e ∧
      (rowUpd cfg ref ref.length s.best e = true →
        (columnLoop cfg (compareAscii cfg) (encodeRef cfg ref) ref ref.length s
          (j+1, (encodeQuery cfg query)[j]'(by rw [encodeQuery_length]; exact hj))).best
            = ⟨e.origin, e.cost, e.score, ref.length, j+1, true⟩ ∧
        (columnLoop cfg (compareAscii cfg) (encodeRef cfg ref) ref ref.length s
          (j+1, (encodeQuery cfg query)[j]'(by rw [encodeQuery_length]; exact hj))).done
            = (e.cost == 0 && decide (e.origin ≥ 0))) ∧
      (rowUpd cfg ref ref.length s.best e = false →
        (columnLoop cfg (compareAscii cfg) (encodeRef cfg ref) ref ref.length s
          (j+1, (encodeQuery cfg query)[j]'(by rw [encodeQuery_length]; exact hj))).best = s.best ∧
        (columnLoop cfg (compareAscii cfg) (encodeRef cfg ref) ref ref.length s
          (j+1, (encodeQuery cfg query)[j]'(by rw [encodeQuery_length]; exact hj))).done = false) := by
  have hge := hu.ge
  have hcol := h.col hd
  have hmlen : (mkCtx cfg ref query).ref.length = ref.length := encodeRef_length cfg ref
  have hj' : j < (mkCtx cfg ref query).query.length := by
    show j < (encodeQuery cfg query).length
    rw [encodeQuery_length]; exact hj
  have hstep : ColInv (mkCtx cfg ref query) (j+1) s.last (stepColumn cfg (compareAscii cfg) (encodeRef cfg ref)
      (encodeQuery cfg query)[j] s.last s.col) := stepColumn_inv hwf.indel_pos hj' hcol
  have e1 : j + 1 - minNOf cfg ref.length query.length = j - minNOf cfg ref.length query.length + 1 := by omega
  have hlast : s.last = ref.length := by
    have := h.last_le
    apply Nat.le_antisymm this
    apply Nat.le_of_not_lt; intro hlt
    have hh : cfg.k < D (mkCtx cfg ref query) (minNOf cfg ref.length query.length) ref.length
        (j - minNOf cfg ref.length query.length + 1) :=
      D_high_beyond (hu.u hd) ref.length hlt (by rw [hmlen]; exact Nat.le_refl _)
    rw [e1] at hD
    omega
  have hcost : ((stepColumn cfg (compareAscii cfg) (encodeRef cfg ref) (encodeQuery cfg query)[j] s.last s.col).getD
      ref.length default).cost ≤ D (mkCtx cfg ref query) (minNOf cfg ref.length query.length) ref.length
        (j + 1 - minNOf cfg ref.length query.length) := by
    have := stepColumn_U (ctx := mkCtx cfg ref query) (j0 := minNOf cfg ref.length query.length)
      (t := j - minNOf cfg ref.length query.length) (by omega) hj' hcol (hu.u hd) ref.length
      (by rw [hmlen]; exact Nat.le_refl _)
    rw [← e1] at this
    exact this hD
  have hcell := hstep.cells ref.length (by rw [hmlen]; exact Nat.le_refl _)
  have hgood := hcell.1 (by show _ ≤ cfg.k; omega)
  refine ⟨_, hcost, hgood, hcell.2.1, ?_, ?_⟩
  · intro hupd
    rw [columnLoop_eq _ _ _ _ _ _ _ _ hd]
    generalize stepColumn cfg (compareAscii cfg) (encodeRef cfg ref) (encodeQuery cfg query)[j] s.last s.col = col'
      at hcost hupd ⊢
    rw [hlast, shrinkLast_full _ _ _ (by omega)]
    simp only [Nat.lt_irrefl, if_false, hsq, if_true, hupd, and_self]
  · intro hupd
    rw [columnLoop_eq _ _ _ _ _ _ _ _ hd]
    generalize stepColumn cfg (compareAscii cfg) (encodeRef cfg ref) (encodeQuery cfg query)[j] s.last s.col = col'
      at hcost hupd ⊢
    rw [hlast, shrinkLast_full _ _ _ (by omega)]
    simp only [Nat.lt_irrefl, if_false, hsq, if_true, hupd, Bool.false_eq_true, and_self]

end Cutadapt.Align.Exact
