import Cutadapt.Proofs.StepsFate
/-! `collectFiltered` (`Statistics.collect` of report.py): keys come from step identifiers; with distinct identifiers the
    values add up to the total of the per-step filter counters. -/
namespace Cutadapt.Steps
open Cutadapt

/-- one iteration of the loop in `collectFiltered` -/
def collectStep (s : Summary) (acc : List (String × Nat)) (p : Step × Nat) : List (String × Nat) :=
  match p.1.filterIdent with
  | some name =>
    let v := getCount p.2 s.filteredByStep
    if acc.any (fun q => q.1 == name) then acc.map (fun q => if q.1 == name then (name, v) else q) else acc ++ [(name, v)]
  | none => acc

theorem collectFiltered_eq (steps : List Step) (s : Summary) :
    collectFiltered steps s = steps.zipIdx.foldl (collectStep s) [] := by
  unfold collectFiltered
  congr 1

theorem collectStep_keys (s : Summary) (acc : List (String × Nat)) (p : Step × Nat) (k : String)
    (h : k ∈ (collectStep s acc p).map (·.1)) : k ∈ acc.map (·.1) ∨ p.1.filterIdent = some k := by
  unfold collectStep at h
  split at h
  · rename_i name hn
    simp only at h
    split at h
    · left
      simp only [List.map_map, List.mem_map, Function.comp] at h
      obtain ⟨q, hq, rfl⟩ := h
      by_cases hqn : q.1 == name
      · simp only [hqn, if_true]
        have : q.1 = name := by simpa using hqn
        exact List.mem_map.2 ⟨q, hq, this⟩
      · simp only [hqn]
        exact List.mem_map.2 ⟨q, hq, rfl⟩
    · simp only [List.map_append, List.map_cons, List.map_nil, List.mem_append, List.mem_singleton] at h
      rcases h with h | h
      · exact .inl h
      · exact .inr (by rw [hn, h])
  · exact .inl h

theorem foldl_collect_keys (s : Summary) (l : List (Step × Nat)) (acc : List (String × Nat)) (k : String)
    (h : k ∈ (l.foldl (collectStep s) acc).map (·.1)) : k ∈ acc.map (·.1) ∨ ∃ p ∈ l, p.1.filterIdent = some k := by
  induction l generalizing acc with
  | nil => exact .inl h
  | cons p l ih =>
    rw [List.foldl_cons] at h
    rcases ih _ h with h | ⟨q, hq, hk⟩
    · rcases collectStep_keys s acc p k h with h | h
      · exact .inl h
      · exact .inr ⟨p, by simp, h⟩
    · exact .inr ⟨q, by simp [hq], hk⟩

/-- every category of the report is the identifier of some step -/
theorem collectFiltered_keys (steps : List Step) (s : Summary) (k : String)
    (h : k ∈ (collectFiltered steps s).map (·.1)) : ∃ st ∈ steps, st.filterIdent = some k := by
  rw [collectFiltered_eq] at h
  rcases foldl_collect_keys s _ [] k h with h | ⟨p, hp, hk⟩
  · simp at h
  · obtain ⟨st, i⟩ := p
    exact ⟨st, (List.mem_zipIdx hp).2.2 ▸ List.getElem_mem _, hk⟩

/-- identifiers of the steps of a (step, index) list -/
def identsOf (l : List (Step × Nat)) : List String := l.filterMap (fun p => p.1.filterIdent)

/-- the report entries when no identifier repeats -/
def entriesOf (s : Summary) (l : List (Step × Nat)) : List (String × Nat) :=
  l.filterMap (fun p => p.1.filterIdent.map (fun name => (name, getCount p.2 s.filteredByStep)))

theorem foldl_collect_nodup (s : Summary) (l : List (Step × Nat)) (acc : List (String × Nat))
    (hnd : (identsOf l).Nodup) (hdis : ∀ k ∈ identsOf l, k ∉ acc.map (·.1)) :
    l.foldl (collectStep s) acc = acc ++ entriesOf s l := by
  induction l generalizing acc with
  | nil => simp [entriesOf]
  | cons p l ih =>
    rw [List.foldl_cons]
    cases hp : p.1.filterIdent with
    | none =>
      have e1 : collectStep s acc p = acc := by simp [collectStep, hp]
      have e2 : identsOf (p :: l) = identsOf l := by simp [identsOf, hp]
      have e3 : entriesOf s (p :: l) = entriesOf s l := by simp [entriesOf, hp]
      rw [e1, e3]
      exact ih acc (e2 ▸ hnd) (e2 ▸ hdis)
    | some name =>
      have e2 : identsOf (p :: l) = name :: identsOf l := by simp [identsOf, hp]
      have e3 : entriesOf s (p :: l) = (name, getCount p.2 s.filteredByStep) :: entriesOf s l := by
        simp [entriesOf, hp]
      rw [e2] at hnd hdis
      have hnot : acc.any (fun q => q.1 == name) = false := by
        have := hdis name (by simp)
        rw [List.any_eq_false]
        intro q hq hqn
        exact this (List.mem_map.2 ⟨q, hq, by simpa using hqn⟩)
      have e1 : collectStep s acc p = acc ++ [(name, getCount p.2 s.filteredByStep)] := by
        simp [collectStep, hp, hnot]
      rw [e1, e3, ih _ (List.nodup_cons.1 hnd).2]
      · simp
      · intro k hk
        simp only [List.map_append, List.map_cons, List.map_nil, List.mem_append, List.mem_singleton, not_or]
        refine ⟨hdis k (by simp [hk]), ?_⟩
        rintro rfl
        exact (List.nodup_cons.1 hnd).1 hk

theorem collectFiltered_nodup (steps : List Step) (s : Summary) (hnd : (steps.filterMap Step.filterIdent).Nodup) :
    collectFiltered steps s = entriesOf s steps.zipIdx := by
  rw [collectFiltered_eq, foldl_collect_nodup s _ [] ?_ (by simp)]
  · simp
  · have : identsOf steps.zipIdx = steps.filterMap Step.filterIdent := by
      unfold identsOf
      have h2 : steps = steps.zipIdx.map (·.1) := by simp
      conv => rhs; rw [h2, List.filterMap_map]
      rfl
    rw [this]; exact hnd

/-- indices of the steps that have a filter category, starting the numbering at `n` -/
def identIdx : List Step → Nat → List Nat
  | [], _ => []
  | st :: rest, n => (if st.filterIdent.isSome then [n] else []) ++ identIdx rest (n + 1)

theorem entriesOf_sum (s : Summary) (steps : List Step) (n : Nat) :
    ((entriesOf s (steps.zipIdx n)).map (·.2)).sum = ((identIdx steps n).map (fun i => getCount i s.filteredByStep)).sum := by
  induction steps generalizing n with
  | nil => simp [entriesOf, identIdx]
  | cons st rest ih =>
    have := ih (n + 1)
    simp only [entriesOf] at this
    cases hp : st.filterIdent <;>
      simp [entriesOf, List.zipIdx_cons, identIdx, hp, this]

theorem identIdx_indicator (steps : List Step) (n k : Nat) :
    ((identIdx steps n).map (fun j => if k = j then 1 else 0)).sum =
      if n ≤ k ∧ ∃ st, steps[k - n]? = some st ∧ st.filterIdent.isSome = true then 1 else 0 := by
  induction steps generalizing n with
  | nil => simp [identIdx]
  | cons st rest ih =>
    simp only [identIdx, List.map_append, List.sum_append, ih]
    by_cases hkn : k = n
    · subst hkn
      have : ¬ (k + 1 ≤ k) := by omega
      cases hp : st.filterIdent.isSome <;> simp [this, hp]
    · have h0 : ((if st.filterIdent.isSome = true then [n] else []).map (fun j => if k = j then 1 else 0)).sum = 0 := by
        split <;> simp [hkn]
      rw [h0, Nat.zero_add]
      by_cases hlt : n + 1 ≤ k
      · have e : k - n = (k - (n + 1)) + 1 := by omega
        have hle : n ≤ k := by omega
        simp only [hlt, hle, true_and, e, List.getElem?_cons_succ]
      · have : ¬ n ≤ k := by omega
        simp [hlt, this]

theorem sum_map_zero (l : List α) : (l.map (fun _ => 0)).sum = 0 := by
  induction l with
  | nil => rfl
  | cons a l ih => simp [ih]

theorem total_add (a b : Event → Nat) (evs : List Event) :
    total (fun ev => a ev + b ev) evs = total a evs + total b evs := by
  induction evs with
  | nil => rfl
  | cons e es ih => simp only [total_cons, ih]; omega

theorem total_sum_swap (J : List Nat) (c : Nat → Event → Nat) (evs : List Event) :
    (J.map (fun i => total (c i) evs)).sum = total (fun ev => (J.map (fun i => c i ev)).sum) evs := by
  induction J with
  | nil => simp only [List.map_nil, List.sum_nil]; exact (total_eq_zero (fun _ _ => rfl)).symm
  | cons j J ih =>
    simp only [List.map_cons, List.sum_cons, ih]
    rw [← total_add]

/-- With distinct identifiers, and every `filtered k` event pointing at a step that has a category, the figures of the
    report add up to the total of the per-step filter counters. -/
theorem collectFiltered_sum (steps : List Step) (evs : List Event)
    (hnd : (steps.filterMap Step.filterIdent).Nodup)
    (hidx : ∀ k, Event.filtered k ∈ evs → ∃ st, steps[k]? = some st ∧ st.filterIdent.isSome = true) :
    ((collectFiltered steps (summarize evs)).map (·.2)).sum = sumVals (summarize evs).filteredByStep := by
  rw [collectFiltered_nodup steps _ hnd, entriesOf_sum, (summarize_is evs).filteredTotal]
  have : ∀ i, getCount i (summarize evs).filteredByStep = total (evFilteredAt i) evs := (summarize_is evs).filteredAt
  simp only [this]
  rw [total_sum_swap]
  unfold total
  apply sum_map_congr
  intro ev hev
  cases ev with
  | filtered k =>
    simp only [evFilteredAt, evFiltered]
    rw [identIdx_indicator]
    simp [hidx k hev]
  | _ =>
    simp only [evFilteredAt, evFiltered]
    exact sum_map_zero _

theorem ReadLog.filtered_idx {steps : List Step} {len1 : Nat} {len2 : Option Nat} {r1 : Read} {r2 : Option Read}
    {evs : List Event} (h : ReadLog steps len1 len2 r1 r2 evs) {k : Nat} (hk : Event.filtered k ∈ evs) :
    ∃ st, steps[k]? = some st ∧ st.filterIdent.isSome = true := by
  obtain ⟨cnt, texts, tail, rfl, hc, htx, htl⟩ := h
  simp only [List.mem_cons, reduceCtorEq, false_or, List.mem_append] at hk
  rcases hk with hk | hk
  · have := hc _ hk; simp [isCounter] at this
  · obtain ⟨-, st, hst, hid, -⟩ := (fate_of_tail htx htl).2.2.2.2 k (List.mem_append.2 hk)
    exact ⟨st, by simpa using hst, hid⟩

/-- in an error-free run every `filtered k` event points at a step with a filter category -/
theorem run_filtered_idx {f : α → Except Err (List Event)} {reads : List α} {evs : List Event} {steps : List Step}
    {l1 : α → Nat} {l2 : α → Option Nat}
    (hlog : ∀ r e, f r = .ok e → ∃ r1 r2, ReadLog steps (l1 r) (l2 r) r1 r2 e)
    (h : runReads f reads [] = (evs, none)) {k : Nat} (hk : Event.filtered k ∈ evs) :
    ∃ st, steps[k]? = some st ∧ st.filterIdent.isSome = true := by
  obtain ⟨he, hok⟩ := run_is_concat h
  rw [he, List.mem_flatten] at hk
  obtain ⟨l, hl, hkl⟩ := hk
  obtain ⟨r, hr, rfl⟩ := List.mem_map.1 hl
  obtain ⟨r1, r2, hlog⟩ := hlog r _ (hok r hr)
  exact hlog.filtered_idx hkl
end Cutadapt.Steps
