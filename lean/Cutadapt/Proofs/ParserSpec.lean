import Cutadapt.Proofs.ParserBraces
import Cutadapt.Proofs.ParserParams
/-! `AdapterSpecification.parse` on a rendered part (C18): name, parameters, braces, restrictions. -/
namespace Cutadapt.ParserProofs
open Cutadapt.Parser Cutadapt.Notation

/-! ## the head of a part: `[name=][^|X]RUNS[$|X]` -/

def Restr.preRuns : Restr → List Run
  | .caret => [⟨'^', none⟩]
  | .xLeft => [⟨'X', none⟩]
  | _ => []
def Restr.sufRuns : Restr → List Run
  | .dollar => [⟨'$', none⟩]
  | .xRight => [⟨'X', none⟩]
  | _ => []

/-- the part between `name=` and `;` -/
def partCore (p : Part) : Str := p.restr.pre ++ renderRuns p.runs ++ p.restr.suf

theorem renderRuns_append (a b : List Run) : renderRuns (a ++ b) = renderRuns a ++ renderRuns b := by
  simp [renderRuns]
theorem expandRuns_append (a b : List Run) : expandRuns (a ++ b) = expandRuns a ++ expandRuns b := by
  simp [expandRuns]

theorem core_eq_runs (p : Part) : partCore p = renderRuns (Restr.preRuns p.restr ++ p.runs ++ Restr.sufRuns p.restr) := by
  simp only [partCore, renderRuns_append]
  cases p.restr <;> rfl

theorem expand_allRuns (p : Part) :
    expandRuns (Restr.preRuns p.restr ++ p.runs ++ Restr.sufRuns p.restr) = p.restr.pre ++ expandRuns p.runs ++ p.restr.suf := by
  simp only [expandRuns_append]
  cases p.restr <;> rfl

/-- characters of the core: plain, or one of `^ $ { }` -/
def coreChar (c : Char) : Bool := plainChar c || c == '^' || c == '$' || c == '{' || c == '}'

theorem coreChar_ne {c : Char} (h : coreChar c = true) :
    c ≠ ';' ∧ c ≠ ':' ∧ c ≠ '=' ∧ c ≠ '.' ∧ isSpace c = false ∧ c.toNat < 128 := by
  simp only [coreChar, Bool.or_eq_true, beq_iff_eq] at h
  rcases h with (((h | rfl) | rfl) | rfl) | rfl
  · exact plain_ne h
  all_goals decide

theorem run_chars {r : Run} (hr : r.WF) : ∀ c ∈ r.render, coreChar c = true := by
  intro c hc
  simp only [Run.render, List.mem_cons] at hc
  rcases hc with rfl | hc
  · simp [coreChar, seq_plain hr.1]
  · cases hrep : r.rep with
    | none => simp [hrep] at hc
    | some n =>
      simp only [hrep, List.mem_cons, List.mem_append, List.mem_singleton] at hc
      rcases hc with (rfl | hc) | hc
      · decide
      · simp [coreChar, digit_plain (mem_natDigits hc)]
      · simp at hc; subst hc; decide

theorem runs_chars {rs : List Run} (hrs : ∀ r ∈ rs, r.WF) : ∀ c ∈ renderRuns rs, coreChar c = true := by
  intro c hc
  simp only [renderRuns, List.mem_flatMap] at hc
  obtain ⟨r, hr, hc⟩ := hc
  exact run_chars (hrs r hr) c hc

theorem core_chars {p : Part} (hp : p.WF) : ∀ c ∈ partCore p, coreChar c = true := by
  intro c hc
  simp only [partCore, List.mem_append] at hc
  rcases hc with (hc | hc) | hc
  · cases hr : p.restr <;> simp [hr, Restr.pre] at hc <;> subst hc <;> decide
  · exact runs_chars hp.2.1 c hc
  · cases hr : p.restr <;> simp [hr, Restr.suf] at hc <;> subst hc <;> decide

theorem head_eq (p : Part) : p.renderHead = renderName p.name ++ partCore p := by
  simp [Part.renderHead, partCore]

/-- characters of the head: as in the core, or the `=` after the name -/
theorem head_chars {p : Part} (hp : p.WF) : ∀ c ∈ p.renderHead, c ≠ ';' ∧ c ≠ ':' ∧ c ≠ '.' ∧ isSpace c = false ∧ c.toNat < 128 := by
  intro c hc
  rw [head_eq, List.mem_append] at hc
  rcases hc with hc | hc
  · cases hn : p.name with
    | none => simp [hn, renderName] at hc
    | some n =>
      simp only [hn, renderName, List.mem_append, List.mem_singleton] at hc
      rcases hc with hc | rfl
      · obtain ⟨h1, h2, _, h4, h5, h6⟩ := plain_ne (name_plain (hp.1 n hn c hc))
        exact ⟨h1, h2, h4, h5, h6⟩
      · decide
  · obtain ⟨h1, h2, _, h4, h5, h6⟩ := coreChar_ne (core_chars hp c hc)
    exact ⟨h1, h2, h4, h5, h6⟩

theorem extractName_head {p : Part} (hp : p.WF) : extractName p.renderHead = (p.name, partCore p) := by
  have hcore_eq : '=' ∉ partCore p := fun h => (coreChar_ne (core_chars hp _ h)).2.2.1 rfl
  have hcore_sp : strip (partCore p) = partCore p := strip_noSpace (fun c hc => (coreChar_ne (core_chars hp c hc)).2.2.2.2.1)
  rw [head_eq]
  unfold extractName
  cases hn : p.name with
  | none =>
    simp only [renderName, List.nil_append]
    simp [partition1_notin hcore_eq, hcore_sp]
  | some n =>
    have hn_eq : '=' ∉ n := fun h => (plain_ne (name_plain (hp.1 n hn _ h))).2.2.1 rfl
    have hn_sp : strip n = n := strip_noSpace (fun c hc => (plain_ne (name_plain (hp.1 n hn c hc))).2.2.2.2.1)
    simp only [renderName, List.append_assoc, List.singleton_append]
    simp [partition1_app _ hn_eq, hcore_sp, hn_sp]

theorem partition_semi {p : Part} (hp : p.WF) :
    (partition1 ';' p.render).1 = p.renderHead ∧ (partition1 ';' p.render).2.2 = paramsTail p.params := by
  have hh : ';' ∉ p.renderHead := fun h => (head_chars hp _ h).1 rfl
  unfold Part.render
  cases hps : p.params with
  | nil => simp [renderParams, partition1_notin hh, paramsTail]
  | cons q qs =>
    rw [renderParams_cons, partition1_app _ hh]
    simp [paramsTail, renderParams_cons]

theorem runs_braces_ok {p : Part} (hp : p.WF) :
    ∀ r ∈ Restr.preRuns p.restr ++ p.runs ++ Restr.sufRuns p.restr, r.c ≠ '{' ∧ r.c ≠ '}' ∧ ∀ n, r.rep = some n → n ≤ 10000 := by
  intro r hr
  simp only [List.mem_append] at hr
  rcases hr with (hr | hr) | hr
  · cases hre : p.restr <;> simp [hre, Restr.preRuns] at hr <;> subst hr <;> simp
  · have := hp.2.1 r hr
    have hb : (r.c != '{' && r.c != '}') = true :=
      all_mem (l := seqChars) (P := fun c => c != '{' && c != '}') (by decide) this.1
    simp only [Bool.and_eq_true, bne_iff_ne, ne_eq] at hb
    exact ⟨hb.1, hb.2, this.2⟩
  · cases hre : p.restr <;> simp [hre, Restr.sufRuns] at hr <;> subst hr <;> simp

/-- **String level of `AdapterSpecification.parse`** on a rendered part: the name is split off, the parameters are parsed into
    the written dict, braces are expanded; what remains is `aspecCore` on abstract data. -/
theorem parseASpec_render {p : Part} (hp : p.WF) (t : AType) :
    parseASpec p.render t =
      if (p.params.map (fun q => q.name.key)).Nodup then
        match postParams (paramDict p.params) with
        | .error e => .error e
        | .ok P => aspecCore p.name (p.restr.pre ++ expandRuns p.runs ++ p.restr.suf) P t
      else .error .duplicateKey := by
  unfold parseASpec
  simp only [(partition_semi hp).1, (partition_semi hp).2, extractName_head hp, parseParams_tail]
  by_cases hnd : (p.params.map (fun q => q.name.key)).Nodup
  · simp only [hnd, if_true]
    cases postParams (paramDict p.params) with
    | error e => rfl
    | ok P =>
      simp only [core_eq_runs, expandBraces_renderRuns _ (runs_braces_ok hp), expand_allRuns]
  · simp [hnd]

/-! ## placement restrictions -/

def Restr.front : Restr → Option Restriction
  | .caret => some .anchored
  | .xLeft => some .noninternal
  | _ => none
def Restr.back : Restr → Option Restriction
  | .dollar => some .anchored
  | .xRight => some .noninternal
  | _ => none

theorem restrictEnd_plain (anchor c : Char) (tl : Str) (h1 : c ≠ anchor) (h2 : isX c = false) :
    restrictEnd anchor (c :: tl) = some (none, c :: tl) := by
  simp [restrictEnd, h1, h2]

theorem restrictEnd_anchor (anchor c : Char) (tl : Str) (h2 : isX c = false) :
    restrictEnd anchor (anchor :: c :: tl) = some (some .anchored, c :: tl) := by
  simp [restrictEnd, h2]

theorem restrictEnd_x (anchor c : Char) (tl : Str) (ha : anchor ≠ 'X') (h2 : isX c = false) :
    restrictEnd anchor ('X' :: c :: tl) = some (some .noninternal, c :: tl) := by
  have : isX 'X' = true := by decide
  simp [restrictEnd, Ne.symm ha, this, List.dropWhile, h2]

theorem edge_head {sq : Str} (h : edgeOK sq) : ∃ c tl, sq = c :: tl ∧ isX c = false := by
  obtain ⟨h1, h2, _⟩ := h
  cases sq with
  | nil => exact absurd rfl h1
  | cons c tl => exact ⟨c, tl, rfl, h2 c rfl⟩

theorem edge_last {sq : Str} (h : edgeOK sq) : ∃ c tl, sq.reverse = c :: tl ∧ isX c = false := by
  obtain ⟨h1, _, h3⟩ := h
  cases hr : sq.reverse with
  | nil => simp at hr; exact absurd hr h1
  | cons c tl =>
    refine ⟨c, tl, rfl, h3 c ?_⟩
    have : sq = (c :: tl).reverse := by rw [← hr]; simp
    rw [this]; simp

/-- **Restrictions round trip**: `^`, `$`, a leading or trailing `X` around a sequence that does not itself begin or end
    with `X` are recognised and removed. -/
theorem parseRestrictions_render (r : Restr) {sq : Str} (h : edgeOK sq) (hc : ∀ c ∈ sq, c ≠ '^' ∧ c ≠ '$') :
    parseRestrictions (r.pre ++ sq ++ r.suf) = some (Restr.front r, Restr.back r, sq) := by
  obtain ⟨c, tl, hsq, hx⟩ := edge_head h
  obtain ⟨d, tl', hrev, hxd⟩ := edge_last h
  have hc1 : c ≠ '^' := (hc c (by simp [hsq])).1
  have hdmem : d ∈ sq := by
    have : d ∈ sq.reverse := by simp [hrev]
    simpa using this
  have hd1 : d ≠ '$' := (hc d hdmem).2
  have hrevrev : (d :: tl').reverse = sq := by rw [← hrev]; simp
  unfold parseRestrictions
  cases r with
  | none =>
    simp only [Restr.pre, Restr.suf, List.nil_append, List.append_nil, Restr.front, Restr.back]
    rw [hsq, restrictEnd_plain _ _ _ hc1 hx]
    simp only [← hsq, hrev, restrictEnd_plain _ _ _ hd1 hxd, hrevrev]
    simp
  | caret =>
    simp only [Restr.pre, Restr.suf, List.append_nil, Restr.front, Restr.back, List.singleton_append]
    rw [hsq, restrictEnd_anchor _ _ _ hx]
    simp only [← hsq, hrev, restrictEnd_plain _ _ _ hd1 hxd, hrevrev]
    simp
  | xLeft =>
    simp only [Restr.pre, Restr.suf, List.append_nil, Restr.front, Restr.back, List.singleton_append]
    rw [hsq, restrictEnd_x _ _ _ (by decide) hx]
    simp only [← hsq, hrev, restrictEnd_plain _ _ _ hd1 hxd, hrevrev]
    simp
  | dollar =>
    simp only [Restr.pre, Restr.suf, List.nil_append, Restr.front, Restr.back]
    rw [hsq]
    simp only [List.cons_append]
    rw [restrictEnd_plain _ _ _ hc1 hx]
    simp only [← List.cons_append, ← hsq, List.reverse_append, List.reverse_cons, List.reverse_nil, List.nil_append,
      List.singleton_append, hrev, restrictEnd_anchor _ _ _ hxd, hrevrev]
    simp
  | xRight =>
    simp only [Restr.pre, Restr.suf, List.nil_append, Restr.front, Restr.back]
    rw [hsq]
    simp only [List.cons_append]
    rw [restrictEnd_plain _ _ _ hc1 hx]
    simp only [← List.cons_append, ← hsq, List.reverse_append, List.reverse_cons, List.reverse_nil, List.nil_append,
      List.singleton_append, hrev, restrictEnd_x '$' _ _ (by decide) hxd, hrevrev]
    simp

theorem mem_expandRuns {rs : List Run} {c : Char} (h : c ∈ expandRuns rs) : ∃ r ∈ rs, c = r.c := by
  simp only [expandRuns, List.mem_flatMap] at h
  obtain ⟨r, hr, hc⟩ := h
  refine ⟨r, hr, ?_⟩
  unfold Run.expand at hc
  cases hrep : r.rep with
  | none => simpa [hrep] using hc
  | some n => simp [hrep] at hc; exact hc.2

theorem expand_seqChars {p : Part} (hp : p.WF) : ∀ c ∈ expandRuns p.runs, c ∈ seqChars := by
  intro c hc
  obtain ⟨r, hr, rfl⟩ := mem_expandRuns hc
  exact (hp.2.1 r hr).1

end Cutadapt.ParserProofs
