import Cutadapt.StatsMerge
import Cutadapt.Proofs.StepsFate
import Cutadapt.Proofs.OrderStats
/-! `Statistics.__iadd__` adds: the merged summary is the componentwise sum of its two arguments (tables compared through `getCount`),
    hence merging the statistics of the chunks of a run gives the statistics of the whole run, in whatever order and grouping. -/
namespace Cutadapt.Steps
open Cutadapt

section Counts
variable {κ : Type} [BEq κ] [LawfulBEq κ]

omit [LawfulBEq κ] in
theorem getCount_eq_zero_of_not_mem (k : κ) (l : List (κ × Nat)) (h : ∀ p ∈ l, (p.1 == k) = false) : getCount k l = 0 := by
  induction l with
  | nil => rfl
  | cons p rest ih =>
    obtain ⟨k', v⟩ := p
    rw [getCount_cons, h (k', v) List.mem_cons_self]
    exact ih (fun q hq => h q (List.mem_cons_of_mem _ hq))

/-- dictionaries have one binding per key: under that condition `for k, v in b.items(): a[k] += v` adds entry by entry -/
theorem getCount_mergeCounts (k : κ) (a b : List (κ × Nat)) (hb : (b.map (·.1)).Nodup) :
    getCount k (mergeCounts a b) = getCount k a + getCount k b := by
  unfold mergeCounts
  induction b generalizing a with
  | nil => simp [getCount]
  | cons p rest ih =>
    obtain ⟨k', v⟩ := p
    rw [List.map_cons, List.nodup_cons] at hb
    rw [List.foldl_cons, ih _ hb.2, getCount_incr, getCount_cons]
    cases h : k' == k
    · simp
    · have e : k' = k := eq_of_beq h
      subst e
      have : getCount k' rest = 0 := getCount_eq_zero_of_not_mem k' rest (fun q hq => by
        cases hq1 : q.1 == k'
        · rfl
        · exact absurd (List.mem_map.mpr ⟨q, hq, eq_of_beq hq1⟩) hb.1)
      simp [this]

theorem nodup_keys_mergeCounts (a b : List (κ × Nat)) (ha : (a.map (·.1)).Nodup) : ((mergeCounts a b).map (·.1)).Nodup := by
  unfold mergeCounts
  induction b generalizing a with
  | nil => exact ha
  | cons p rest ih => exact ih _ (nodup_keys_incr p.1 p.2 a ha)

omit [LawfulBEq κ] in
theorem sumVals_mergeCounts (a b : List (κ × Nat)) : sumVals (mergeCounts a b) = sumVals a + sumVals b := by
  unfold mergeCounts
  induction b generalizing a with
  | nil => simp [sumVals]
  | cons p rest ih =>
    obtain ⟨k', v⟩ := p
    rw [List.foldl_cons, ih, sumVals_incr]
    simp [sumVals]; omega

end Counts

/-- the tables of a summary are dictionaries (one binding per key) -/
structure KeysNodup (s : Summary) : Prop where
  filtered : (s.filteredByStep.map (·.1)).Nodup
  polyA1 : (s.polyA1.map (·.1)).Nodup
  polyA2 : (s.polyA2.map (·.1)).Nodup

theorem keysNodup_zero : KeysNodup Summary.zero := ⟨List.nodup_nil, List.nodup_nil, List.nodup_nil⟩

theorem keysNodup_add (s : Summary) (h : KeysNodup s) (ev : Event) : KeysNodup (s.add ev) := by
  cases ev <;> try exact h
  all_goals first
    | exact ⟨h.filtered, h.polyA1, h.polyA2⟩
    | skip
  case qualTrimmed side k => cases side <;> exact ⟨h.filtered, h.polyA1, h.polyA2⟩
  case polyA side k =>
    cases side
    · exact ⟨h.filtered, nodup_keys_incr _ _ _ h.polyA1, h.polyA2⟩
    · exact ⟨h.filtered, h.polyA1, nodup_keys_incr _ _ _ h.polyA2⟩
  case withAdapter side => cases side <;> exact ⟨h.filtered, h.polyA1, h.polyA2⟩
  case filtered i => exact ⟨nodup_keys_incr _ _ _ h.filtered, h.polyA1, h.polyA2⟩

/-- what `Statistics.collect` gathers from a run has one entry per key -/
theorem keysNodup_summarize (evs : List Event) : KeysNodup (summarize evs) := by
  unfold summarize
  have : ∀ (s : Summary), KeysNodup s → KeysNodup (evs.foldl Summary.add s) := by
    induction evs with
    | nil => exact fun s h => h
    | cons e es ih => exact fun s h => ih _ (keysNodup_add s h e)
  exact this _ keysNodup_zero

theorem keysNodup_merge (a b : Summary) (ha : KeysNodup a) : KeysNodup (a.merge b) :=
  ⟨nodup_keys_mergeCounts _ _ ha.filtered, nodup_keys_mergeCounts _ _ ha.polyA1, nodup_keys_mergeCounts _ _ ha.polyA2⟩

/-- **`Statistics.__iadd__` adds**: `a += b` is the componentwise sum of `a` and `b` -/
theorem merge_isSum (a b : Summary) (hb : KeysNodup b) : IsSum (a.merge b) [a, b] where
  n := by simp [Summary.merge]
  bp1 := by simp [Summary.merge]
  bp2 := by simp [Summary.merge]
  written := by simp [Summary.merge]
  writtenBp1 := by simp [Summary.merge]
  writtenBp2 := by simp [Summary.merge]
  qualTrimmed1 := by simp [Summary.merge]
  qualTrimmed2 := by simp [Summary.merge]
  withAdapters1 := by simp [Summary.merge]
  withAdapters2 := by simp [Summary.merge]
  reverseComplemented := by simp [Summary.merge]
  filteredAt := fun k => by simp [Summary.merge, getCount_mergeCounts _ _ _ hb.filtered]
  filteredTotal := by simp [Summary.merge, sumVals_mergeCounts]
  polyA1 := fun k => by simp [Summary.merge, getCount_mergeCounts _ _ _ hb.polyA1]
  polyA2 := fun k => by simp [Summary.merge, getCount_mergeCounts _ _ _ hb.polyA2]

/-- two summaries report the same figures (tables are dictionaries: compared entry by entry) -/
structure SummaryEq (s t : Summary) : Prop where
  n : s.n = t.n
  bp1 : s.bp1 = t.bp1
  bp2 : s.bp2 = t.bp2
  written : s.written = t.written
  writtenBp1 : s.writtenBp1 = t.writtenBp1
  writtenBp2 : s.writtenBp2 = t.writtenBp2
  qualTrimmed1 : s.qualTrimmed1 = t.qualTrimmed1
  qualTrimmed2 : s.qualTrimmed2 = t.qualTrimmed2
  withAdapters1 : s.withAdapters1 = t.withAdapters1
  withAdapters2 : s.withAdapters2 = t.withAdapters2
  reverseComplemented : s.reverseComplemented = t.reverseComplemented
  filteredAt : ∀ k, getCount k s.filteredByStep = getCount k t.filteredByStep
  filteredTotal : sumVals s.filteredByStep = sumVals t.filteredByStep
  polyA1 : ∀ k, getCount k s.polyA1 = getCount k t.polyA1
  polyA2 : ∀ k, getCount k s.polyA2 = getCount k t.polyA2

/-- sums of the same parts are equal -/
theorem IsSum.unique {s t : Summary} {parts : List Summary} (hs : IsSum s parts) (ht : IsSum t parts) : SummaryEq s t where
  n := hs.n.trans ht.n.symm
  bp1 := hs.bp1.trans ht.bp1.symm
  bp2 := hs.bp2.trans ht.bp2.symm
  written := hs.written.trans ht.written.symm
  writtenBp1 := hs.writtenBp1.trans ht.writtenBp1.symm
  writtenBp2 := hs.writtenBp2.trans ht.writtenBp2.symm
  qualTrimmed1 := hs.qualTrimmed1.trans ht.qualTrimmed1.symm
  qualTrimmed2 := hs.qualTrimmed2.trans ht.qualTrimmed2.symm
  withAdapters1 := hs.withAdapters1.trans ht.withAdapters1.symm
  withAdapters2 := hs.withAdapters2.trans ht.withAdapters2.symm
  reverseComplemented := hs.reverseComplemented.trans ht.reverseComplemented.symm
  filteredAt := fun k => (hs.filteredAt k).trans (ht.filteredAt k).symm
  filteredTotal := hs.filteredTotal.trans ht.filteredTotal.symm
  polyA1 := fun k => (hs.polyA1 k).trans (ht.polyA1 k).symm
  polyA2 := fun k => (hs.polyA2 k).trans (ht.polyA2 k).symm

theorem SummaryEq.refl (s : Summary) : SummaryEq s s :=
  ⟨rfl, rfl, rfl, rfl, rfl, rfl, rfl, rfl, rfl, rfl, rfl, fun _ => rfl, rfl, fun _ => rfl, fun _ => rfl⟩

theorem SummaryEq.symm {s t : Summary} (h : SummaryEq s t) : SummaryEq t s :=
  ⟨h.n.symm, h.bp1.symm, h.bp2.symm, h.written.symm, h.writtenBp1.symm, h.writtenBp2.symm, h.qualTrimmed1.symm, h.qualTrimmed2.symm,
   h.withAdapters1.symm, h.withAdapters2.symm, h.reverseComplemented.symm, fun k => (h.filteredAt k).symm, h.filteredTotal.symm,
   fun k => (h.polyA1 k).symm, fun k => (h.polyA2 k).symm⟩

theorem SummaryEq.trans {s t u : Summary} (h : SummaryEq s t) (g : SummaryEq t u) : SummaryEq s u :=
  ⟨h.n.trans g.n, h.bp1.trans g.bp1, h.bp2.trans g.bp2, h.written.trans g.written, h.writtenBp1.trans g.writtenBp1,
   h.writtenBp2.trans g.writtenBp2, h.qualTrimmed1.trans g.qualTrimmed1, h.qualTrimmed2.trans g.qualTrimmed2,
   h.withAdapters1.trans g.withAdapters1, h.withAdapters2.trans g.withAdapters2, h.reverseComplemented.trans g.reverseComplemented,
   fun k => (h.filteredAt k).trans (g.filteredAt k), h.filteredTotal.trans g.filteredTotal,
   fun k => (h.polyA1 k).trans (g.polyA1 k), fun k => (h.polyA2 k).trans (g.polyA2 k)⟩

/-- merging respects equality of figures -/
theorem merge_congr {a a' b b' : Summary} (ha : SummaryEq a a') (hb : SummaryEq b b') (nb : KeysNodup b) (nb' : KeysNodup b') :
    SummaryEq (a.merge b) (a'.merge b') where
  n := by simp [Summary.merge, ha.n, hb.n]
  bp1 := by simp [Summary.merge, ha.bp1, hb.bp1]
  bp2 := by simp [Summary.merge, ha.bp2, hb.bp2]
  written := by simp [Summary.merge, ha.written, hb.written]
  writtenBp1 := by simp [Summary.merge, ha.writtenBp1, hb.writtenBp1]
  writtenBp2 := by simp [Summary.merge, ha.writtenBp2, hb.writtenBp2]
  qualTrimmed1 := by simp [Summary.merge, ha.qualTrimmed1, hb.qualTrimmed1]
  qualTrimmed2 := by simp [Summary.merge, ha.qualTrimmed2, hb.qualTrimmed2]
  withAdapters1 := by simp [Summary.merge, ha.withAdapters1, hb.withAdapters1]
  withAdapters2 := by simp [Summary.merge, ha.withAdapters2, hb.withAdapters2]
  reverseComplemented := by simp [Summary.merge, ha.reverseComplemented, hb.reverseComplemented]
  filteredAt := fun k => by
    simp [Summary.merge, getCount_mergeCounts _ _ _ nb.filtered, getCount_mergeCounts _ _ _ nb'.filtered, ha.filteredAt k, hb.filteredAt k]
  filteredTotal := by simp [Summary.merge, sumVals_mergeCounts, ha.filteredTotal, hb.filteredTotal]
  polyA1 := fun k => by
    simp [Summary.merge, getCount_mergeCounts _ _ _ nb.polyA1, getCount_mergeCounts _ _ _ nb'.polyA1, ha.polyA1 k, hb.polyA1 k]
  polyA2 := fun k => by
    simp [Summary.merge, getCount_mergeCounts _ _ _ nb.polyA2, getCount_mergeCounts _ _ _ nb'.polyA2, ha.polyA2 k, hb.polyA2 k]

/-- the sum does not depend on the order of the parts -/
theorem IsSum.perm {s : Summary} {parts parts' : List Summary} (h : IsSum s parts) (p : parts.Perm parts') : IsSum s parts' where
  n := h.n.trans (p.map _).sum_nat
  bp1 := h.bp1.trans (p.map _).sum_nat
  bp2 := h.bp2.trans (p.map _).sum_nat
  written := h.written.trans (p.map _).sum_nat
  writtenBp1 := h.writtenBp1.trans (p.map _).sum_nat
  writtenBp2 := h.writtenBp2.trans (p.map _).sum_nat
  qualTrimmed1 := h.qualTrimmed1.trans (p.map _).sum_nat
  qualTrimmed2 := h.qualTrimmed2.trans (p.map _).sum_nat
  withAdapters1 := h.withAdapters1.trans (p.map _).sum_nat
  withAdapters2 := h.withAdapters2.trans (p.map _).sum_nat
  reverseComplemented := h.reverseComplemented.trans (p.map _).sum_nat
  filteredAt := fun k => (h.filteredAt k).trans (p.map _).sum_nat
  filteredTotal := h.filteredTotal.trans (p.map _).sum_nat
  polyA1 := fun k => (h.polyA1 k).trans (p.map _).sum_nat
  polyA2 := fun k => (h.polyA2 k).trans (p.map _).sum_nat

/-- one more `+=` -/
theorem IsSum.snoc {s : Summary} {parts : List Summary} (h : IsSum s parts) (x : Summary) (hx : KeysNodup x) :
    IsSum (s.merge x) (parts ++ [x]) where
  n := by simp [Summary.merge, h.n]
  bp1 := by simp [Summary.merge, h.bp1]
  bp2 := by simp [Summary.merge, h.bp2]
  written := by simp [Summary.merge, h.written]
  writtenBp1 := by simp [Summary.merge, h.writtenBp1]
  writtenBp2 := by simp [Summary.merge, h.writtenBp2]
  qualTrimmed1 := by simp [Summary.merge, h.qualTrimmed1]
  qualTrimmed2 := by simp [Summary.merge, h.qualTrimmed2]
  withAdapters1 := by simp [Summary.merge, h.withAdapters1]
  withAdapters2 := by simp [Summary.merge, h.withAdapters2]
  reverseComplemented := by simp [Summary.merge, h.reverseComplemented]
  filteredAt := fun k => by simp [Summary.merge, getCount_mergeCounts _ _ _ hx.filtered, h.filteredAt k]
  filteredTotal := by simp [Summary.merge, sumVals_mergeCounts, h.filteredTotal]
  polyA1 := fun k => by simp [Summary.merge, getCount_mergeCounts _ _ _ hx.polyA1, h.polyA1 k]
  polyA2 := fun k => by simp [Summary.merge, getCount_mergeCounts _ _ _ hx.polyA2, h.polyA2 k]

theorem isSum_zero : IsSum Summary.zero [] :=
  ⟨rfl, rfl, rfl, rfl, rfl, rfl, rfl, rfl, rfl, rfl, rfl, fun _ => rfl, rfl, fun _ => rfl, fun _ => rfl⟩

/-- `stats = Statistics(); for s in parts: stats += s` -/
def mergeAll (parts : List Summary) : Summary := parts.foldl Summary.merge Summary.zero

theorem foldl_merge_isSum (l : List Summary) (hl : ∀ x ∈ l, KeysNodup x) (acc : Summary) (parts : List Summary) (h : IsSum acc parts) :
    IsSum (l.foldl Summary.merge acc) (parts ++ l) := by
  induction l generalizing acc parts with
  | nil => simpa using h
  | cons x xs ih =>
    rw [List.foldl_cons]
    have := ih (fun y hy => hl y (List.mem_cons_of_mem _ hy)) _ _ (h.snoc x (hl x List.mem_cons_self))
    simpa using this

theorem mergeAll_isSum (l : List Summary) (hl : ∀ x ∈ l, KeysNodup x) : IsSum (mergeAll l) l := by
  have := foldl_merge_isSum l hl _ _ isSum_zero
  simpa [mergeAll] using this

end Cutadapt.Steps
