import Cutadapt.Proofs.KmerTables
/-! The finder as a whole: several masks per entry, characterisation of `kmers_present`, and absence of the
    `NotImplementedError` path in `create_positions_and_kmers`. -/
namespace Cutadapt.Kmer
open Cutadapt Cutadapt.Spec Cutadapt.Align Cutadapt.Adapters Cutadapt.Generated

/-! ### several masks per entry -/

theorem packWords_any_correct (m : UInt8 → UInt8 → Bool) (kmers : List Bytes) (hne : ∀ k ∈ kmers, k ≠ [])
    (hlen : ∀ k ∈ kmers, k.length ≤ 64) (window : Bytes) :
    (packWords kmers).any (fun ws =>
      shiftAnd (maskFrom m ws.flatten 0) (initMaskFrom ws 0) (foundMaskFrom ws 0) window 0) = true ↔
    ∃ k ∈ kmers, ∃ i, OccursAt m k window i := by
  simp only [List.any_eq_true, packWords]
  constructor
  · rintro ⟨ws, hws, hsa⟩
    obtain ⟨h64, hsub⟩ := packGo_sound kmers 0 [] rfl (by omega) hlen ws hws
    have hsub' : ∀ w ∈ ws, w ∈ kmers := fun w hw => by
      rcases hsub w hw with h | h
      · simp at h
      · exact h
    obtain ⟨w, hw, i, hocc⟩ := (shiftAnd_correct m ws (fun w hw => hne w (hsub' w hw)) h64 window).mp hsa
    exact ⟨w, hsub' w hw, i, hocc⟩
  · rintro ⟨k, hk, i, hocc⟩
    obtain ⟨ws, hws, hkws⟩ := packGo_complete kmers 0 [] k (Or.inr hk)
    obtain ⟨h64, hsub⟩ := packGo_sound kmers 0 [] rfl (by omega) hlen ws hws
    have hsub' : ∀ w ∈ ws, w ∈ kmers := fun w hw => by
      rcases hsub w hw with h | h
      · simp at h
      · exact h
    exact ⟨ws, hws, (shiftAnd_correct m ws (fun w hw => hne w (hsub' w hw)) h64 window).mpr ⟨k, hkws, i, hocc⟩⟩

/-- `kmers_present` says yes iff some k-mer of some entry occurs, under the table relation, inside the window that the
    entry's `(start, stop)` selects from the memory `read ++ beyond ++ 0…` -/
theorem kmersPresent_iff {entries : List Entry} {ms : List MaskEntry} (h : mkFinder entries = some ms)
    (hne : ∀ e ∈ entries, ∀ k ∈ e.kmers, k ≠ []) (wr wq : Bool) (read beyond : Bytes) :
    kmersPresent (.masks wr wq ms) read beyond = true ↔
    ∃ e ∈ entries, ∃ st len, windowOf e.start (e.stop.getD 0) read.length = some (st, len) ∧
      ∃ k ∈ e.kmers, ∃ i, OccursAt (kmerMatches wr wq) k (haystack (read ++ beyond) st len) i := by
  have hlen : ∀ e ∈ entries, ∀ k ∈ e.kmers, k.length ≤ 64 := by
    intro e he k hk
    obtain ⟨me, _, _, _, hkw, h64, _⟩ := mkFinder_mem h he hk
    have : k.length ≤ me.words.flatten.length := by
      obtain ⟨a, b, hab⟩ := List.append_of_mem hkw
      rw [hab]; simp only [List.flatten_append, List.flatten_cons, List.length_append]; omega
    omega
  simp only [mkFinder] at h
  split at h
  · cases h
  · simp only [Option.some.injEq] at h
    subst h
    simp only [kmersPresent, List.any_eq_true, List.mem_flatMap, List.mem_map]
    constructor
    · rintro ⟨me, ⟨e, he, ws, hws, rfl⟩, hp⟩
      simp only [entryPresent] at hp
      split at hp
      · cases hp
      · rename_i st len hwin
        refine ⟨e, he, st, len, hwin, ?_⟩
        rw [entryMask_eq] at hp
        exact (packWords_any_correct (kmerMatches wr wq) e.kmers (hne e he) (hlen e he) _).mp
          (List.any_eq_true.mpr ⟨ws, hws, hp⟩)
    · rintro ⟨e, he, st, len, hwin, hk⟩
      obtain ⟨ws, hws, hp⟩ := List.any_eq_true.mp
        ((packWords_any_correct (kmerMatches wr wq) e.kmers (hne e he) (hlen e he) _).mpr hk)
      refine ⟨⟨e.start, e.stop.getD 0, ws⟩, ⟨e, he, ws, hws, rfl⟩, ?_⟩
      simp only [entryPresent, hwin, entryMask_eq]
      exact hp

/-! ### `create_positions_and_kmers` never raises `NotImplementedError` -/

theorem mapE_all_ok {f : α → Except ε β} {l : List α} (h : ∀ x ∈ l, ∃ y, f x = .ok y) : ∃ r, mapE f l = .ok r := by
  induction l with
  | nil => exact ⟨[], rfl⟩
  | cons x xs ih =>
    obtain ⟨y, hy⟩ := h x (by simp)
    obtain ⟨ys, hys⟩ := ih (fun x' hx' => h x' (by simp [hx']))
    exact ⟨y :: ys, by simp [mapE, hy, hys]⟩

theorem minimizeOne_ok {positions : List Pos} (h : ∀ p ∈ positions, p.1 = 0 ∨ p.2 = none) :
    ∃ ps, minimizeOne positions = .ok ps := by
  unfold minimizeOne
  split
  · exact ⟨_, rfl⟩
  · split
    · exact ⟨_, rfl⟩
    · have : positions.filter (fun p => p.1 != 0 && p.2.isSome) = [] := by
        rw [List.filter_eq_nil_iff]
        intro p hp
        rcases h p hp with h | h <;> simp [h]
      simp only [this]
      exact ⟨_, rfl⟩

theorem minimize_ok {l : List (Bytes × Pos)} (h : ∀ t ∈ l, t.2.1 = 0 ∨ t.2.2 = none) :
    ∃ r, minimizeKmerSearchList l = .ok r := by
  unfold minimizeKmerSearchList
  obtain ⟨ls, hls⟩ := mapE_all_ok (f := minimizeFor l) (l := sortUniq bytesLt (l.map (·.1))) (by
    intro k _
    unfold minimizeFor
    obtain ⟨ps, hps⟩ := minimizeOne_ok (positions := (l.filter (·.1 == k)).map (·.2)) (by
      intro p hp
      simp only [List.mem_map, List.mem_filter] at hp
      obtain ⟨t, ⟨ht, _⟩, rfl⟩ := hp
      exact h t ht)
    rw [hps]; exact ⟨_, rfl⟩)
  rw [hls]; exact ⟨_, rfl⟩

theorem createPositionsAndKmers_ok (adapter : Bytes) (mo : Nat) (thr : Nat → Nat) (b f i ind : Bool) :
    ∃ entries, createPositionsAndKmers adapter mo thr b f i ind = .ok entries := by
  have hsets : ∀ s ∈ searchSets adapter mo thr b f i ind, s.start = 0 ∨ s.stop = none := by
    intro s hs
    simp only [searchSets, List.mem_append] at hs
    rcases hs with (hs | hs) | hs
    · split at hs
      · right; exact backSets_stop adapter mo thr ind s hs
      · simp at hs
    · split at hs
      · simp only [List.mem_map] at hs
        obtain ⟨s', _, rfl⟩ := hs
        left; rfl
      · simp at hs
    · split at hs
      · simp at hs; subst hs; left; rfl
      · simp at hs
  dsimp only [createPositionsAndKmers, removeRedundantKmers]
  obtain ⟨r, hr⟩ := minimize_ok (l := (searchSets adapter mo thr b f i ind).flatMap
      (fun s => s.kmers.map (fun k => (k, (s.start, s.stop))))) (by
    intro t ht
    simp only [List.mem_flatMap, List.mem_map] at ht
    obtain ⟨s, hs, k, _, rfl⟩ := ht
    exact hsets s hs)
  rw [hr]; exact ⟨_, rfl⟩

end Cutadapt.Kmer
