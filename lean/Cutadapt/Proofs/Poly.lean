import Cutadapt.Qualtrim
/-! Invariant of the poly-A/poly-T scan `polyGo` (used by C14). Core Lean only. -/
namespace Cutadapt.Qualtrim

/-- +1 for the homopolymer character, −2 for any other -/
def pval (hit c : UInt8) : Int := if c == hit then 1 else -2
def perr (hit c : UInt8) : Nat := if c == hit then 0 else 1

/-- score after visiting the first `t` characters, starting from score `s0` -/
def scoreAt (hit : UInt8) (s0 : Int) (cs : List UInt8) (t : Nat) : Int := s0 + ((cs.take t).map (pval hit)).sum
/-- number of other characters among the first `t`, starting from `e0` -/
def errAt (hit : UInt8) (e0 : Nat) (cs : List UInt8) (t : Nat) : Nat := e0 + ((cs.take t).map (perr hit)).sum

theorem scoreAt_cons (hit s0 c cs t) : scoreAt hit s0 (c :: cs) (t+1) = scoreAt hit (s0 + pval hit c) cs t := by
  simp [scoreAt, List.take]; omega
theorem errAt_cons (hit e0 c cs t) : errAt hit e0 (c :: cs) (t+1) = errAt hit (e0 + perr hit c) cs t := by
  simp [errAt, List.take]; omega
@[simp] theorem scoreAt_zero (hit s0 cs) : scoreAt hit s0 cs 0 = s0 := by simp [scoreAt]
@[simp] theorem errAt_zero (hit e0 cs) : errAt hit e0 cs 0 = e0 := by simp [errAt]

/-- at most 20 % other characters among the `j + t` characters visited -/
def ValidAt (hit : UInt8) (j e0 : Nat) (cs : List UInt8) (t : Nat) : Prop := errAt hit e0 cs t * 5 ≤ j + t

theorem polyGo_step (hit c : UInt8) (cs : List UInt8) (j : Nat) (score : Int) (errors : Nat) (bestScore : Int) (best : Nat) :
    polyGo hit (c :: cs) j score errors bestScore best =
      if score + pval hit c > bestScore ∧ (errors + perr hit c) * 5 ≤ j + 1
      then polyGo hit cs (j+1) (score + pval hit c) (errors + perr hit c) (score + pval hit c) (j+1)
      else polyGo hit cs (j+1) (score + pval hit c) (errors + perr hit c) bestScore best := by
  by_cases h : c == hit <;> simp [polyGo, pval, perr, h] <;> rfl

theorem polyGo_spec (hit : UInt8) (cs : List UInt8) : ∀ (j : Nat) (score : Int) (errors : Nat) (bestScore : Int) (best : Nat),
    (polyGo hit cs j score errors bestScore best = best ∧
      ∀ t, 1 ≤ t → t ≤ cs.length → ValidAt hit j errors cs t → scoreAt hit score cs t ≤ bestScore) ∨
    (∃ t0, 1 ≤ t0 ∧ t0 ≤ cs.length ∧ polyGo hit cs j score errors bestScore best = j + t0 ∧
      ValidAt hit j errors cs t0 ∧ bestScore < scoreAt hit score cs t0 ∧
      (∀ t, 1 ≤ t → t ≤ cs.length → ValidAt hit j errors cs t → scoreAt hit score cs t ≤ scoreAt hit score cs t0) ∧
      (∀ t, 1 ≤ t → t < t0 → ValidAt hit j errors cs t → scoreAt hit score cs t < scoreAt hit score cs t0)) := by
  induction cs with
  | nil =>
    intro j score errors bestScore best
    left; refine ⟨rfl, ?_⟩; intro t h1 h2; simp at h2; omega
  | cons c cs ih =>
    intro j score errors bestScore best
    rw [polyGo_step]
    have hv : ∀ t, ValidAt hit j errors (c :: cs) (t+1) ↔ ValidAt hit (j+1) (errors + perr hit c) cs t := by
      intro t; unfold ValidAt; rw [errAt_cons]; omega
    by_cases hup : score + pval hit c > bestScore ∧ (errors + perr hit c) * 5 ≤ j + 1
    · rw [if_pos hup]
      rcases ih (j+1) (score + pval hit c) (errors + perr hit c) (score + pval hit c) (j+1) with
        ⟨hr, hall⟩ | ⟨t0, h1, h2, hr, hval, hlt, hall, hfirst⟩
      · right
        refine ⟨1, by omega, by simp, by rw [hr], ?_, ?_, ?_, ?_⟩
        · rw [hv]; unfold ValidAt; simp; omega
        · rw [scoreAt_cons]; simp; omega
        · intro t ht1 htl hvt
          cases t with
          | zero => omega
          | succ t =>
            rw [scoreAt_cons, scoreAt_cons]; simp only [scoreAt_zero]
            by_cases ht0 : t = 0
            · subst ht0; simp
            · exact hall t (by omega) (by simp at htl; omega) ((hv t).mp hvt)
        · intro t ht1 ht; omega
      · right
        refine ⟨t0+1, by omega, by simp; omega, by rw [hr]; omega, (hv t0).mpr hval, ?_, ?_, ?_⟩
        · rw [scoreAt_cons]; omega
        · intro t ht1 htl hvt
          cases t with
          | zero => omega
          | succ t =>
            rw [scoreAt_cons, scoreAt_cons]
            by_cases ht0 : t = 0
            · subst ht0; simp only [scoreAt_zero]; omega
            · exact hall t (by omega) (by simp at htl; omega) ((hv t).mp hvt)
        · intro t ht1 ht hvt
          cases t with
          | zero => omega
          | succ t =>
            rw [scoreAt_cons, scoreAt_cons]
            by_cases ht0 : t = 0
            · subst ht0; simp only [scoreAt_zero]; omega
            · exact hfirst t (by omega) (by omega) ((hv t).mp hvt)
    · rw [if_neg hup]
      rcases ih (j+1) (score + pval hit c) (errors + perr hit c) bestScore best with
        ⟨hr, hall⟩ | ⟨t0, h1, h2, hr, hval, hlt, hall, hfirst⟩
      · left
        refine ⟨hr, ?_⟩
        intro t ht1 htl hvt
        cases t with
        | zero => omega
        | succ t =>
          rw [scoreAt_cons]
          by_cases ht0 : t = 0
          · subst ht0; simp only [scoreAt_zero]
            have hv0 := (hv 0).mp hvt
            unfold ValidAt at hv0; simp at hv0
            omega
          · exact hall t (by omega) (by simp at htl; omega) ((hv t).mp hvt)
      · right
        refine ⟨t0+1, by omega, by simp; omega, by rw [hr]; omega, (hv t0).mpr hval, ?_, ?_, ?_⟩
        · rw [scoreAt_cons]; omega
        · intro t ht1 htl hvt
          cases t with
          | zero => omega
          | succ t =>
            rw [scoreAt_cons, scoreAt_cons]
            by_cases ht0 : t = 0
            · subst ht0; simp only [scoreAt_zero]
              have hv0 := (hv 0).mp hvt
              unfold ValidAt at hv0; simp at hv0
              omega
            · exact hall t (by omega) (by simp at htl; omega) ((hv t).mp hvt)
        · intro t ht1 ht hvt
          cases t with
          | zero => omega
          | succ t =>
            rw [scoreAt_cons, scoreAt_cons]
            by_cases ht0 : t = 0
            · subst ht0; simp only [scoreAt_zero]
              have hv0 := (hv 0).mp hvt
              unfold ValidAt at hv0; simp at hv0
              omega
            · exact hfirst t (by omega) (by omega) ((hv t).mp hvt)

/-- Specification of `polyBest`: the number of characters removed is the *smallest* `t` among the valid visit
    counts that maximises the score, provided that maximum is positive; otherwise 0. -/
theorem polyBest_spec (hit : UInt8) (cs : List UInt8) :
    (polyBest hit cs = 0 ∧ ∀ t, 1 ≤ t → t ≤ cs.length → ValidAt hit 0 0 cs t → scoreAt hit 0 cs t ≤ 0) ∨
    (1 ≤ polyBest hit cs ∧ polyBest hit cs ≤ cs.length ∧ ValidAt hit 0 0 cs (polyBest hit cs) ∧
      0 < scoreAt hit 0 cs (polyBest hit cs) ∧
      (∀ t, 1 ≤ t → t ≤ cs.length → ValidAt hit 0 0 cs t → scoreAt hit 0 cs t ≤ scoreAt hit 0 cs (polyBest hit cs)) ∧
      (∀ t, 1 ≤ t → t < polyBest hit cs → ValidAt hit 0 0 cs t → scoreAt hit 0 cs t < scoreAt hit 0 cs (polyBest hit cs))) := by
  unfold polyBest
  rcases polyGo_spec hit cs 0 0 0 0 0 with ⟨hr, hall⟩ | ⟨t0, h1, h2, hr, hval, hlt, hall, hfirst⟩
  · left; exact ⟨hr, hall⟩
  · right; rw [hr]; simp only [Nat.zero_add]
    exact ⟨h1, h2, hval, hlt, hall, hfirst⟩

end Cutadapt.Qualtrim
