import Cutadapt.Runner
/-! Sums over the workers and over lists of chunk indices (natural numbers and a commutative monoid of statistics). -/
namespace Cutadapt.Runner

variable {Stats : Type}

/-! ## Natural-number sums over the workers `0 … n-1` -/

def sumW : Nat → (Nat → Nat) → Nat
  | 0, _ => 0
  | n + 1, f => sumW n f + f n

theorem sumW_congr {n : Nat} {f g : Nat → Nat} (h : ∀ v, v < n → g v = f v) : sumW n g = sumW n f := by
  induction n with
  | zero => rfl
  | succ n ih =>
    simp only [sumW]
    rw [ih (fun v hv => h v (by omega)), h n (by omega)]

/-- two functions that differ only at worker `w` -/
theorem sumW_update {n w : Nat} {f g : Nat → Nat} (hw : w < n) (h : ∀ v, v ≠ w → g v = f v) :
    sumW n g + f w = sumW n f + g w := by
  induction n with
  | zero => omega
  | succ n ih =>
    simp only [sumW]
    by_cases hwn : w = n
    · subst hwn
      have := sumW_congr (n := w) (f := f) (g := g) (fun v hv => h v (by omega))
      omega
    · have := ih (by omega)
      have := h n (fun e => hwn e.symm)
      omega

theorem sumW_add_const {n : Nat} {f g : Nat → Nat} (c : Nat) (h : ∀ v, v < n → g v = f v + c) :
    sumW n g = sumW n f + n * c := by
  induction n with
  | zero => simp [sumW]
  | succ n ih =>
    simp only [sumW]
    rw [ih (fun v hv => h v (by omega)), h n (by omega), Nat.succ_mul]
    omega

theorem sumW_le {n : Nat} {f : Nat → Nat} (h : ∀ v, v < n → f v ≤ 1) : sumW n f ≤ n := by
  induction n with
  | zero => simp [sumW]
  | succ n ih =>
    simp only [sumW]
    have := ih (fun v hv => h v (by omega))
    have := h n (by omega)
    omega

theorem sumW_full {n : Nat} {f : Nat → Nat} (h : ∀ v, v < n → f v ≤ 1) (hs : sumW n f = n) : ∀ v, v < n → f v = 1 := by
  induction n with
  | zero => intro v hv; omega
  | succ n ih =>
    simp only [sumW] at hs
    have h1 := sumW_le (n := n) (f := f) (fun v hv => h v (by omega))
    have h2 := h n (by omega)
    intro v hv
    by_cases hvn : v = n
    · subst hvn; omega
    · exact ih (fun v hv => h v (by omega)) (by omega) v (by omega)

theorem sumW_zero {n : Nat} {f : Nat → Nat} (hs : sumW n f = 0) : ∀ v, v < n → f v = 0 := by
  induction n with
  | zero => intro v hv; omega
  | succ n ih =>
    simp only [sumW] at hs
    intro v hv
    by_cases hvn : v = n
    · subst hvn; omega
    · exact ih (by omega) v (by omega)

theorem sumW_pos {n : Nat} {f : Nat → Nat} {v : Nat} (hv : v < n) (h : 0 < f v) : 0 < sumW n f := by
  rcases Nat.eq_zero_or_pos (sumW n f) with h0 | h0
  · have := sumW_zero h0 v hv; omega
  · exact h0

theorem sumW_eq_const {n : Nat} {f : Nat → Nat} (c : Nat) (h : ∀ v, v < n → f v = c) : sumW n f = n * c := by
  induction n with
  | zero => simp [sumW]
  | succ n ih =>
    simp only [sumW]
    rw [ih (fun v hv => h v (by omega)), h n (by omega), Nat.succ_mul]

/-! ## Sums in a commutative monoid -/

/-- the hypotheses on `Statistics.__iadd__` / `Statistics()` under which the order of merging is irrelevant -/
structure IsCommMonoid (add : Stats → Stats → Stats) (zero : Stats) : Prop where
  assoc : ∀ a b c, add (add a b) c = add a (add b c)
  comm : ∀ a b, add a b = add b a
  zero_add : ∀ a, add zero a = a

theorem IsCommMonoid.add_zero {add : Stats → Stats → Stats} {zero : Stats} (h : IsCommMonoid add zero) (a : Stats) :
    add a zero = a := by rw [h.comm, h.zero_add]

def sumS (add : Stats → Stats → Stats) (zero : Stats) : Nat → (Nat → Stats) → Stats
  | 0, _ => zero
  | n + 1, f => add (sumS add zero n f) (f n)

section
variable {add : Stats → Stats → Stats} {zero : Stats}

theorem sumS_congr {n : Nat} {f g : Nat → Stats} (h : ∀ v, v < n → g v = f v) :
    sumS add zero n g = sumS add zero n f := by
  induction n with
  | zero => rfl
  | succ n ih =>
    simp only [sumS]
    rw [ih (fun v hv => h v (by omega)), h n (by omega)]

/-- `g` is `f` with `δ` added at worker `w` -/
theorem sumS_update (hm : IsCommMonoid add zero) {n w : Nat} {f g : Nat → Stats} {δ : Stats} (hw : w < n)
    (h : ∀ v, v ≠ w → g v = f v) (hd : g w = add (f w) δ) :
    sumS add zero n g = add (sumS add zero n f) δ := by
  induction n with
  | zero => omega
  | succ n ih =>
    simp only [sumS]
    by_cases hwn : w = n
    · subst hwn
      rw [sumS_congr (n := w) (f := f) (g := g) (fun v hv => h v (by omega)), hd, hm.assoc]
    · rw [ih (by omega), h n (fun e => hwn e.symm), hm.assoc, hm.comm δ, ← hm.assoc]

theorem sumS_zero (hm : IsCommMonoid add zero) {n : Nat} {f : Nat → Stats} (h : ∀ v, v < n → f v = zero) :
    sumS add zero n f = zero := by
  induction n with
  | zero => rfl
  | succ n ih =>
    simp only [sumS]
    rw [ih (fun v hv => h v (by omega)), h n (by omega), hm.zero_add]

/-- `st i₁ + (st i₂ + (… + zero))` over a list of chunk indices -/
def wsum (add : Stats → Stats → Stats) (zero : Stats) (st : Nat → Stats) : List Nat → Stats
  | [] => zero
  | i :: l => add (st i) (wsum add zero st l)

theorem wsum_append (hm : IsCommMonoid add zero) (st : Nat → Stats) (l₁ l₂ : List Nat) :
    wsum add zero st (l₁ ++ l₂) = add (wsum add zero st l₁) (wsum add zero st l₂) := by
  induction l₁ with
  | nil => simp [wsum, hm.zero_add]
  | cons a l ih => simp only [List.cons_append, wsum, ih, hm.assoc]

theorem wsum_perm (hm : IsCommMonoid add zero) (st : Nat → Stats) {l₁ l₂ : List Nat} (h : l₁.Perm l₂) :
    wsum add zero st l₁ = wsum add zero st l₂ := by
  induction h with
  | nil => rfl
  | cons a _ ih => simp only [wsum, ih]
  | swap a b l => simp only [wsum]; rw [← hm.assoc, hm.comm (st b), hm.assoc]
  | trans _ _ ih₁ ih₂ => rw [ih₁, ih₂]

theorem wsum_range (hm : IsCommMonoid add zero) (st : Nat → Stats) (k : Nat) :
    wsum add zero st (List.range k) = sumRange add zero st k := by
  induction k with
  | zero => rfl
  | succ k ih =>
    rw [List.range_succ, wsum_append hm, ih]
    simp only [wsum, sumRange, hm.add_zero]

end

/-- a list of naturals in which exactly the numbers below `N` occur, each once, is a permutation of `range N` -/
theorem perm_range_of_count {l : List Nat} {N : Nat} (h : ∀ i, l.count i = if i < N then 1 else 0) :
    l.Perm (List.range N) := by
  rw [List.perm_iff_count]
  intro i
  rw [h i, List.nodup_range.count]
  simp [List.mem_range]

end Cutadapt.Runner
