import Cutadapt.Pipeline
/-! Segments of reads: `SameSeg`, `QualOK`, closure under composition, the slicing primitives of `Read` and the
    `trimmed` methods of matches. Core Lean only. -/
namespace Cutadapt
open Cutadapt.Adapters Cutadapt.Qualtrim

/-! ### `seg` -/

theorem seg_seg (xs : List α) (a b c d : Nat) : seg (seg xs a b) c d = seg xs (a + c) (min b (a + d)) := by
  unfold seg
  rw [List.take_drop, List.take_take, List.drop_drop]
  congr 2
  omega

theorem seg_of_length_le (xs : List α) (a b : Nat) (h : xs.length ≤ b) : seg xs a b = xs.drop a := by
  unfold seg; rw [List.take_of_length_le h]

theorem seg_zero (xs : List α) (b : Nat) : seg xs 0 b = xs.take b := by simp [seg]

theorem seg_map (f : α → β) (xs : List α) (a b : Nat) : seg (xs.map f) a b = (seg xs a b).map f := by
  simp [seg, List.map_take, List.map_drop]

theorem seg_reverse (xs : List α) (a b : Nat) :
    (seg xs a b).reverse = seg xs.reverse (xs.length - min b xs.length) (xs.length - a) := by
  apply List.ext_getElem
  · simp [seg_length]; omega
  · intro i h1 h2
    simp only [seg_length, List.length_reverse] at h1 h2
    simp only [seg, List.getElem_reverse, List.getElem_drop, List.getElem_take, List.length_drop, List.length_take]
    congr 1
    omega

theorem take_append_seg_append_drop (xs : List α) (a b : Nat) (h : a ≤ b) :
    xs.take a ++ seg xs a b ++ xs.drop b = xs := by
  unfold seg
  have : xs.take a = (xs.take b).take a := by rw [List.take_take]; congr 1; omega
  rw [this, List.take_append_drop, List.take_append_drop]

/-! ### Relations between reads -/

/-- `r'` carries a contiguous slice of the sequence of `r` and the same slice of its qualities -/
def SameSeg (r r' : Read) : Prop := ∃ a b, r'.seq = seg r.seq a b ∧ r'.qual = r.qual.map (seg · a b)

/-- dnaio's invariant: a quality string, when present, is as long as the sequence -/
def QualOK (r : Read) : Prop := ∀ q, r.qual = some q → q.length = r.seq.length

theorem SameSeg.refl (r : Read) : SameSeg r r := by
  refine ⟨0, r.seq.length + (r.qual.getD []).length, ?_, ?_⟩
  · rw [seg_of_length_le _ _ _ (by omega)]; rfl
  · cases h : r.qual with
    | none => rfl
    | some q => simp [seg_of_length_le]

theorem SameSeg.trans {r r' r'' : Read} (h1 : SameSeg r r') (h2 : SameSeg r' r'') : SameSeg r r'' := by
  obtain ⟨a, b, hs, hq⟩ := h1
  obtain ⟨c, d, hs', hq'⟩ := h2
  refine ⟨a + c, min b (a + d), ?_, ?_⟩
  · rw [hs', hs, seg_seg]
  · rw [hq', hq, Option.map_map]
    congr 1; funext q; simp [seg_seg]

theorem SameSeg.qualOK {r r' : Read} (h : SameSeg r r') (hq : QualOK r) : QualOK r' := by
  obtain ⟨a, b, hs, hq'⟩ := h
  intro q hq2
  rw [hq'] at hq2
  cases hr : r.qual with
  | none => rw [hr] at hq2; simp at hq2
  | some q0 =>
    rw [hr] at hq2; simp at hq2
    rw [← hq2, hs, seg_length, seg_length, hq q0 hr]

theorem SameSeg.of_eq {r r' : Read} (hs : r'.seq = r.seq) (hq : r'.qual = r.qual) : SameSeg r r' := by
  obtain ⟨a, b, h1, h2⟩ := SameSeg.refl r
  exact ⟨a, b, hs ▸ h1, hq ▸ h2⟩

theorem QualOK.of_eq {r r' : Read} (hs : r'.seq = r.seq) (hq : r'.qual = r.qual) (h : QualOK r) : QualOK r' := by
  intro q hq'; rw [hs]; exact h q (hq ▸ hq')

theorem SameSeg.sub (r : Read) (a b : Nat) : SameSeg r (r.sub a b) := ⟨a, b, rfl, rfl⟩

theorem SameSeg.takeFront (r : Read) (k : Nat) : SameSeg r (r.takeFront k) := by
  refine ⟨0, k, ?_, ?_⟩
  · simp [Read.takeFront, seg_zero]
  · simp only [Read.takeFront]; congr 1

theorem SameSeg.dropFront (r : Read) (k : Nat) : SameSeg r (r.dropFront k) := by
  refine ⟨k, r.seq.length + (r.qual.getD []).length, ?_, ?_⟩
  · simp only [Read.dropFront]; rw [seg_of_length_le _ _ _ (by omega)]
  · cases h : r.qual with
    | none => simp [Read.dropFront, h]
    | some q => simp [Read.dropFront, h, seg_of_length_le]

/-- `record[a:b]` with Python bounds: the bounds are normalised against the length of the string they are
    applied to, hence the same for sequence and qualities only when the two are equally long -/
theorem SameSeg.slice (r : Read) (hq : QualOK r) (a b : Option Int) : SameSeg r (r.slice a b) := by
  refine ⟨normBound r.seq.length 0 a, normBound r.seq.length r.seq.length b, rfl, ?_⟩
  cases h : r.qual with
  | none => simp [Read.slice, h]
  | some q => simp [Read.slice, h, pySlice, hq q h]

theorem Read.sub_name (r : Read) (a b : Nat) : (r.sub a b).name = r.name := rfl
theorem Read.slice_name (r : Read) (a b : Option Int) : (r.slice a b).name = r.name := rfl
theorem Read.takeFront_name (r : Read) (k : Nat) : (r.takeFront k).name = r.name := rfl
theorem Read.dropFront_name (r : Read) (k : Nat) : (r.dropFront k).name = r.name := rfl

theorem MatchRec.trimmed_sameSeg (m : MatchRec) (r : Read) : SameSeg r (m.trimmed r) := by
  unfold MatchRec.trimmed
  split
  · exact SameSeg.dropFront _ _
  · exact SameSeg.takeFront _ _

theorem MatchRec.trimmed_name (m : MatchRec) (r : Read) : (m.trimmed r).name = r.name := by
  unfold MatchRec.trimmed; split <;> rfl

theorem AnyMatch.trimmed_sameSeg (m : AnyMatch) (r : Read) : SameSeg r (m.trimmed r) := by
  cases m with
  | single _ mr => exact mr.trimmed_sameSeg r
  | linked _ f b =>
    cases f <;> cases b <;> simp only [AnyMatch.trimmed]
    · exact SameSeg.refl r
    · exact MatchRec.trimmed_sameSeg _ _
    · exact MatchRec.trimmed_sameSeg _ _
    · exact (MatchRec.trimmed_sameSeg _ _).trans (MatchRec.trimmed_sameSeg _ _)

theorem AnyMatch.trimmed_name (m : AnyMatch) (r : Read) : (m.trimmed r).name = r.name := by
  cases m with
  | single _ mr => exact mr.trimmed_name r
  | linked _ f b =>
    cases f <;> cases b <;> simp [AnyMatch.trimmed, MatchRec.trimmed_name]

/-- revcomp of a slice is a slice of the revcomp (equal lengths of sequence and qualities needed) -/
theorem SameSeg.revcomp {r r' : Read} (h : SameSeg r r') (hq : QualOK r) : SameSeg r.revcomp r'.revcomp := by
  obtain ⟨a, b, hs, hq'⟩ := h
  refine ⟨r.seq.length - min b r.seq.length, r.seq.length - a, ?_, ?_⟩
  · simp only [Read.revcomp, hs]
    rw [← seg_map, seg_reverse]; simp
  · simp only [Read.revcomp, hq']
    cases hr : r.qual with
    | none => rfl
    | some q => simp [seg_reverse, hq q hr]

theorem Read.revcomp_name (r : Read) : r.revcomp.name = r.name := rfl

theorem QualOK.revcomp {r : Read} (h : QualOK r) : QualOK r.revcomp := by
  intro q hq
  cases hr : r.qual with
  | none => simp [Read.revcomp, hr] at hq
  | some q0 =>
    simp [Read.revcomp, hr] at hq
    simp [Read.revcomp, ← hq, h q0 hr]

end Cutadapt
