import Cutadapt.Proofs.MatchSoundRaw
import Cutadapt.Proofs.DpExactMain
/-! C01/C02: minimality of the reported number of errors in the documented vocabulary. -/
namespace Cutadapt.MatchSound
open Cutadapt Cutadapt.Align Cutadapt.Spec Cutadapt.Generated Cutadapt.Adapters Cutadapt.Align.Exact

def Op.map (f g : Sym → Sym) : Op → Op
  | .sub r q => .sub (f r) (g q)
  | .del r => .del (f r)
  | .ins q => .ins (g q)

/-- encode a script -/
theorem script_map (f g : Sym → Sym) (eq eq' : Sym → Sym → Bool) (c : Nat) : ∀ (s : List Op),
    (∀ x ∈ lhs s, ∀ y, eq' x y = eq (f x) (g y)) →
    lhs (s.map (Op.map f g)) = (lhs s).map f ∧ rhs (s.map (Op.map f g)) = (rhs s).map g ∧
    cost eq c (s.map (Op.map f g)) = cost eq' c s
  | [], _ => ⟨rfl, rfl, rfl⟩
  | o :: s, h => by
    have hrec : ∀ x ∈ lhs s, ∀ y, eq' x y = eq (f x) (g y) := fun x hx => h x (by
      rw [lhs_cons]; exact List.mem_append_right _ hx)
    obtain ⟨h1, h2, h3⟩ := script_map f g eq eq' c s hrec
    cases o with
    | sub r q =>
      have := h r (by simp [Op.lhs]) q
      simp [Op.map, Op.lhs, Op.rhs, Op.cost, h1, h2, h3, this]
    | del r => simp [Op.map, Op.lhs, Op.rhs, Op.cost, h1, h2, h3]
    | ins q => simp [Op.map, Op.lhs, Op.rhs, Op.cost, h1, h2, h3]

/-- no alignment of the two intervals is cheaper than `e` -/
def RawMin (aw rw : Bool) (c : Nat) (seq read : Bytes) (as ae rs re e : Nat) : Prop :=
  ∀ s, lhs s = seg seq as ae → rhs s = seg read rs re → e ≤ cost (docMatch aw rw) c s

theorem RawMin.reverse {aw rw : Bool} {c : Nat} {seq read : Bytes} {as ae rs re e : Nat}
    (hb : as ≤ ae ∧ ae ≤ seq.length ∧ rs ≤ re ∧ re ≤ read.length)
    (h : RawMin aw rw c seq.reverse read.reverse as ae rs re e) :
    RawMin aw rw c seq read (seq.length - ae) (seq.length - as) (read.length - re) (read.length - rs) e := by
  intro s hl hr
  have := h s.reverse
    (by rw [lhs_reverse, hl, seg_reverse _ _ _ hb.1 hb.2.1])
    (by rw [rhs_reverse, hr, seg_reverse _ _ _ hb.2.2.1 hb.2.2.2])
  rwa [cost_reverse] at this

theorem RawMin.upperRead {aw rw : Bool} {c : Nat} {seq read : Bytes} {as ae rs re e : Nat}
    (h : RawMin aw rw c seq (read.map asciiUpper) as ae rs re e) : RawMin aw rw c seq read as ae rs re e := by
  intro s hl hr
  obtain ⟨h1, h2, h3⟩ := script_map id asciiUpper (docMatch aw rw) (docMatch aw rw) c s
    (fun x _ y => (docMatch_upper aw rw x y).symm)
  have := h _ (by rw [h1, hl]; simp) (by rw [h2, hr, seg_map])
  rwa [h3] at this

theorem locate_rawMin (a : Adapter) (flags : Nat) (seq read : Bytes) (hlen : seq.length = a.seq.length)
    (hup : ∀ c ∈ seq, ¬ (97 ≤ c ∧ c ≤ 122)) (hmono : ∀ x y, x ≤ y → a.thr x ≤ a.thr y)
    {as ae rs re : Nat} {sc : Int} {e : Nat}
    (h : locate (alignerCfg a flags) seq read = some (as, ae, rs, re, sc, e)) :
    RawMin a.adapterWildcards a.readWildcards (indelCost a) seq read as ae rs re e := by
  have hwf : (alignerCfg a flags).WF seq.length := ⟨indelCost_pos a, hmono, by rw [hlen]; rfl⟩
  intro s hl hr
  obtain ⟨h1, h2, h3⟩ := script_map (encR a.adapterWildcards a.readWildcards) (encQ a.adapterWildcards a.readWildcards)
    (alignerCfg a flags).eq (docMatch a.adapterWildcards a.readWildcards) (indelCost a) s
    (fun x hx y => docMatch_eq_aligner _ _ x y (hup x (by rw [hl] at hx; exact mem_of_mem_seg hx)))
  have := locate_minimal _ _ _ hwf h _
    (by rw [h1, hl, encodeRef_eq_map, seg_map]; rfl) (by rw [h2, hr, encodeQuery_eq_map, seg_map]; rfl)
  rw [← h3]; exact this

/-- the comparers' error count is minimal (adapters shorter than the "no indels" cost) -/
theorem hamming_rawMin (aw rw : Bool) (seq read : Bytes)
    (hlen : seq.length < indelCostOff) :
    RawMin aw rw indelCostOff seq read 0 seq.length 0 seq.length
      (hamming (docMatch aw rw) seq (seg read 0 seq.length)) := by
  intro s hl hr
  rw [seg_zero_length] at hl
  by_cases hc : cost (docMatch aw rw) indelCostOff s < indelCostOff
  · obtain ⟨_, h2⟩ := no_indel_script (docMatch aw rw) indelCostOff s hc
    rw [hl, hr] at h2; omega
  · have := hamming_le_of_length (docMatch aw rw) seq (seg read 0 seq.length)
    omega

end Cutadapt.MatchSound
