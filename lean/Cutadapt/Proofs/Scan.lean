import Cutadapt.Qualtrim
/-! Invariant of the BWA-style scan `scanGo` (used by C13). Core Lean only. -/
namespace Cutadapt.Qualtrim

/-- sum of the first `j` values -/
def pre (vs : List Int) (j : Nat) : Int := (vs.take j).sum

/-- starting from running sum `s0`, the loop does not `break` while visiting the first `j` values -/
def ReachS (s0 : Int) (vs : List Int) (j : Nat) : Prop := ∀ t, 1 ≤ t → t ≤ j → 0 ≤ s0 + pre vs t

theorem pre_cons (v : Int) (vs : List Int) (j : Nat) : pre (v :: vs) (j+1) = v + pre vs j := by
  simp [pre, List.take, List.sum_cons]

@[simp] theorem pre_zero (vs : List Int) : pre vs 0 = 0 := by simp [pre]

theorem pre_one (v : Int) (vs : List Int) : pre (v :: vs) 1 = v := by simp [pre]

theorem reachS_tail {s v : Int} {vs : List Int} {t : Nat} (h : ReachS s (v :: vs) (t+1)) : ReachS (s + v) vs t := by
  intro u hu1 hut
  have := h (u+1) (by omega) (by omega)
  rw [pre_cons] at this; omega

theorem reachS_cons {s v : Int} {vs : List Int} {t : Nat} (h0 : 0 ≤ s + v) (h : ReachS (s + v) vs t) :
    ReachS s (v :: vs) (t+1) := by
  intro u hu1 hut
  cases u with
  | zero => omega
  | succ u =>
    rw [pre_cons]
    by_cases hu0 : u = 0
    · subst hu0; simp; omega
    · have := h u (by omega) (by omega); omega

theorem scanGo_spec (vs : List Int) : ∀ (j : Nat) (s maxq : Int) (best : Nat), 0 ≤ maxq →
    (scanGo vs j s maxq best = best ∧
      ∀ t, 1 ≤ t → t ≤ vs.length → ReachS s vs t → s + pre vs t ≤ maxq) ∨
    (∃ t0, 1 ≤ t0 ∧ t0 ≤ vs.length ∧ scanGo vs j s maxq best = j + t0 ∧ ReachS s vs t0 ∧
      maxq < s + pre vs t0 ∧
      (∀ t, 1 ≤ t → t ≤ vs.length → ReachS s vs t → s + pre vs t ≤ s + pre vs t0) ∧
      (∀ t, 1 ≤ t → t < t0 → s + pre vs t < s + pre vs t0)) := by
  induction vs with
  | nil =>
    intro j s maxq best _
    left; refine ⟨rfl, ?_⟩; intro t h1 h2; simp at h2; omega
  | cons v vs ih =>
    intro j s maxq best hmax
    simp only [scanGo]
    by_cases hneg : s + v < 0
    · simp only [hneg, if_true]
      left; refine ⟨trivial, ?_⟩
      intro t h1 _ hr
      have := hr 1 (by omega) h1
      rw [pre_one] at this; omega
    · simp only [hneg, if_false]
      by_cases hgt : s + v > maxq
      · simp only [hgt, if_true]
        rcases ih (j+1) (s+v) (s+v) (j+1) (by omega) with ⟨hr, hall⟩ | ⟨t0, h1, h2, hr, hreach, hlt, hall, hfirst⟩
        · right
          refine ⟨1, by omega, by simp, by rw [hr], ?_, by rw [pre_one]; omega, ?_, ?_⟩
          · intro t ht1 ht; have : t = 1 := by omega
            subst this; rw [pre_one]; omega
          · intro t ht1 htl hrt
            cases t with
            | zero => omega
            | succ t =>
              rw [pre_cons, pre_one]
              by_cases ht0 : t = 0
              · subst ht0; simp
              · have := hall t (by omega) (by simp at htl; omega) (reachS_tail hrt); omega
          · intro t ht1 ht; omega
        · right
          refine ⟨t0+1, by omega, by simp; omega, by rw [hr]; omega, reachS_cons (by omega) hreach,
            by rw [pre_cons]; omega, ?_, ?_⟩
          · intro t ht1 htl hrt
            cases t with
            | zero => omega
            | succ t =>
              rw [pre_cons, pre_cons]
              by_cases ht0 : t = 0
              · subst ht0; simp; omega
              · have := hall t (by omega) (by simp at htl; omega) (reachS_tail hrt); omega
          · intro t ht1 ht
            cases t with
            | zero => omega
            | succ t =>
              rw [pre_cons, pre_cons]
              by_cases ht0 : t = 0
              · subst ht0; simp; omega
              · have := hfirst t (by omega) (by omega); omega
      · simp only [hgt, if_false]
        rcases ih (j+1) (s+v) maxq best hmax with ⟨hr, hall⟩ | ⟨t0, h1, h2, hr, hreach, hlt, hall, hfirst⟩
        · left
          refine ⟨hr, ?_⟩
          intro t ht1 htl hrt
          cases t with
          | zero => omega
          | succ t =>
            rw [pre_cons]
            by_cases ht0 : t = 0
            · subst ht0; simp; omega
            · have := hall t (by omega) (by simp at htl; omega) (reachS_tail hrt); omega
        · right
          refine ⟨t0+1, by omega, by simp; omega, by rw [hr]; omega, reachS_cons (by omega) hreach,
            by rw [pre_cons]; omega, ?_, ?_⟩
          · intro t ht1 htl hrt
            cases t with
            | zero => omega
            | succ t =>
              rw [pre_cons, pre_cons]
              by_cases ht0 : t = 0
              · subst ht0; simp; omega
              · have := hall t (by omega) (by simp at htl; omega) (reachS_tail hrt); omega
          · intro t ht1 ht
            cases t with
            | zero => omega
            | succ t =>
              rw [pre_cons, pre_cons]
              by_cases ht0 : t = 0
              · subst ht0; simp; omega
              · have := hfirst t (by omega) (by omega); omega

/-- `Reach vs j`: the loop visits the first `j` values without `break` -/
def Reach (vs : List Int) (j : Nat) : Prop := ∀ t, 1 ≤ t → t ≤ j → 0 ≤ pre vs t

/-- Specification of the scan: `bestPrefix vs` is the *smallest* `j` among `0` and the reachable prefix
    lengths that maximises the prefix sum. -/
theorem bestPrefix_spec (vs : List Int) :
    bestPrefix vs ≤ vs.length ∧ Reach vs (bestPrefix vs) ∧
    (∀ j, j ≤ vs.length → Reach vs j → pre vs j ≤ pre vs (bestPrefix vs)) ∧
    (∀ t, t < bestPrefix vs → pre vs t < pre vs (bestPrefix vs)) := by
  unfold bestPrefix
  rcases scanGo_spec vs 0 0 0 0 (by omega) with ⟨hr, hall⟩ | ⟨t0, h1, h2, hr, hreach, hlt, hall, hfirst⟩
  · rw [hr]
    refine ⟨by omega, by intro t h1 h2; omega, ?_, by intro t h; omega⟩
    intro j hj hrj
    by_cases hj0 : j = 0
    · subst hj0; simp
    · have := hall j (by omega) hj (by intro t a b; have := hrj t a b; omega)
      simp at this ⊢; omega
  · rw [hr]; simp only [Nat.zero_add]
    refine ⟨h2, by intro t a b; have := hreach t a b; omega, ?_, ?_⟩
    · intro j hj hrj
      by_cases hj0 : j = 0
      · subst hj0; simp; omega
      · have := hall j (by omega) hj (by intro t a b; have := hrj t a b; omega)
        omega
    · intro t ht
      by_cases ht0 : t = 0
      · subst ht0; simp; omega
      · have := hfirst t (by omega) ht; omega

end Cutadapt.Qualtrim
