import Cutadapt.Properties.C07
import Cutadapt.Proofs.AlignSoundMain
/-! Composition of C07's partial theorem with the aligner's soundness theorem (C01, `Cutadapt.Align.locate_sound`):
    the hypothesis `hsound` of `C07.prefilter_safe_partial` is discharged. Kept outside `Properties/C07.lean` so that C07
    does not depend on the files of C01 while those are still being worked on. -/
namespace Cutadapt.C07
open Cutadapt Cutadapt.Kmer Cutadapt.Adapters Cutadapt.Align

theorem locateSound_of_ok (a : Adapter) (hok : AdapterOK a) (flags : Nat) :
    LocateSound (alignerCfg a flags) a.seq.length := by
  intro ref query as ae rs re sc e hlen h
  refine locate_sound (alignerCfg a flags) ref query ⟨?_, hok.thr_ok.mono, ?_⟩ h
  · simp only [alignerCfg, mkCfg, indelCost]; split <;> decide
  · rw [hlen]; rfl

/-- `prefilter_safe_partial` without the soundness hypothesis -/
theorem prefilter_safe_partial_unconditional (a : Adapter) (hok : AdapterOK a) (read beyond : Bytes)
    (hdom : asciiNoNul read = true) : matchToFiltered a read beyond = matchTo a read :=
  prefilter_safe_partial a hok (locateSound_of_ok a hok (flagsOf a)) read beyond hdom

end Cutadapt.C07
