import Cutadapt.Properties.C06
import Cutadapt.Proofs.StatsMerge
import Cutadapt.Properties.C20
/-! C06, second part (kept in a file of its own because `Cutadapt.Action` of the modifiers and `Runner.Action` of the protocol
    would clash): the merge operation of the protocol theorems instantiated with cutadapt's `Statistics.__iadd__`. -/
namespace Cutadapt.C06
open Cutadapt

/-! ## The statistics, concretely: `Statistics.__iadd__` (model: `Cutadapt/StatsMerge.lean`)

The protocol theorems above take the merge operation as a parameter (`IsCommMonoid add zero`). For the counters of cutadapt's report
(`Summary`: reads, base pairs, written reads and bases, the filter counters, quality-trimmed bases, poly-A histograms, with-adapter and
reverse-complemented counts) the hypothesis is discharged here, up to `SummaryEq` — equality of every figure, tables compared entry by
entry, which is what the report prints. -/

open Cutadapt.Steps in
/-- **Merging the statistics of the chunks gives the statistics of the whole input**, for every way of cutting the event log of a run
    into chunks: `stats = Statistics(); for chunk in chunks: stats += statistics(chunk)` reports the same figures as one run over
    everything. -/
theorem merged_statistics_of_any_chunking (chunks : List (List Event)) :
    SummaryEq (mergeAll (chunks.map summarize)) (summarize chunks.flatten) :=
  (mergeAll_isSum _ (by
    intro x hx
    obtain ⟨e, _, rfl⟩ := List.mem_map.mp hx
    exact keysNodup_summarize e)).unique (summarize_flatten chunks)

open Cutadapt.Steps in
/-- **… in whatever order the workers' statistics arrive** -/
theorem merged_statistics_order_independent (parts parts' : List Summary) (h : parts.Perm parts') (hk : ∀ x ∈ parts, KeysNodup x) :
    SummaryEq (mergeAll parts) (mergeAll parts') :=
  ((mergeAll_isSum parts hk).perm h).unique (mergeAll_isSum parts' (fun x hx => hk x (h.mem_iff.mpr hx)))

open Cutadapt.Steps in
theorem isSum_zero_left (a : Summary) : IsSum a [Summary.zero, a] :=
  ⟨by simp [Summary.zero], by simp [Summary.zero], by simp [Summary.zero], by simp [Summary.zero], by simp [Summary.zero], by simp [Summary.zero],
   by simp [Summary.zero], by simp [Summary.zero], by simp [Summary.zero], by simp [Summary.zero], by simp [Summary.zero],
   fun k => by simp [Summary.zero, getCount], by simp [Summary.zero, sumVals], fun k => by simp [Summary.zero, getCount],
   fun k => by simp [Summary.zero, getCount]⟩

open Cutadapt.Steps in
theorem isSum_zero_right (a : Summary) : IsSum a [a, Summary.zero] :=
  (isSum_zero_left a).perm (List.Perm.swap a Summary.zero [])

open Cutadapt.Steps in
/-- `a += b` and `b += a` report the same figures; `(a += b) += c` and `a += (b += c)` too; `Statistics()` is neutral -/
theorem statistics_merge_comm_assoc (a b c : Summary) (ha : KeysNodup a) (hb : KeysNodup b) (hc : KeysNodup c) :
    SummaryEq (a.merge b) (b.merge a) ∧ SummaryEq ((a.merge b).merge c) (a.merge (b.merge c)) ∧
    SummaryEq (Summary.zero.merge a) a ∧ SummaryEq (a.merge Summary.zero) a := by
  refine ⟨?_, ?_, ?_, ?_⟩
  · exact ((merge_isSum a b hb).perm (List.Perm.swap b a [])).unique (merge_isSum b a ha)
  · have h1 : IsSum ((a.merge b).merge c) [a, b, c] := by simpa using (merge_isSum a b hb).snoc c hc
    have h2 : IsSum (a.merge (b.merge c)) [a, b, c] := by
      have hbc := merge_isSum b c hc
      have := merge_isSum a (b.merge c) (keysNodup_merge b c hb)
      exact ⟨by simp [this.n, hbc.n], by simp [this.bp1, hbc.bp1], by simp [this.bp2, hbc.bp2], by simp [this.written, hbc.written],
        by simp [this.writtenBp1, hbc.writtenBp1], by simp [this.writtenBp2, hbc.writtenBp2], by simp [this.qualTrimmed1, hbc.qualTrimmed1],
        by simp [this.qualTrimmed2, hbc.qualTrimmed2], by simp [this.withAdapters1, hbc.withAdapters1],
        by simp [this.withAdapters2, hbc.withAdapters2], by simp [this.reverseComplemented, hbc.reverseComplemented],
        fun k => by simp [this.filteredAt k, hbc.filteredAt k], by simp [this.filteredTotal, hbc.filteredTotal],
        fun k => by simp [this.polyA1 k, hbc.polyA1 k], fun k => by simp [this.polyA2 k, hbc.polyA2 k]⟩
    exact h1.unique h2
  · exact (merge_isSum Summary.zero a ha).unique (isSum_zero_left a)
  · exact (merge_isSum a Summary.zero keysNodup_zero).unique (isSum_zero_right a)

/-- a concrete instance: the counters of two chunks, one with a filtered read and a poly-A tail, merged in both orders -/
example :
    let a := summarize [.input 10 none, .filtered 2, .polyA 0 5]
    let b := summarize [.input 7 none, .sinkStat 3 7 none, .polyA 0 5, .filtered 1]
    (a.merge b).n = 2 ∧ (a.merge b).bp1 = 17 ∧ getCount 5 (a.merge b).polyA1 = 2 ∧ getCount 2 (b.merge a).filteredByStep = 1 ∧
    (a.merge b).written = 1 := by decide

/-! ## Per-adapter statistics -/

/-- two per-adapter statistics objects report the same figures -/
structure AdapterStatsEq (s t : AdapterStats) : Prop where
  rc : s.reverseComplemented = t.reverseComplemented
  frontErrors : ∀ k, getCount k s.front.errors = getCount k t.front.errors
  backErrors : ∀ k, getCount k s.back.errors = getCount k t.back.errors
  backAdjacent : ∀ k, getCount k s.back.adjacent = getCount k t.back.adjacent
  frontAdjacent : ∀ k, getCount k s.front.adjacent = getCount k t.front.adjacent

theorem appliedTo_append (side a : Nat) (e1 e2 : List Event) : appliedTo side a (e1 ++ e2) = appliedTo side a e1 ++ appliedTo side a e2 := by
  simp [appliedTo, List.filterMap_append]

open Cutadapt.Steps in
/-- **Per-adapter statistics of two chunks, merged position by position, are the per-adapter statistics of both chunks processed as one**
    (`AdapterStatistics.__iadd__`: both ends' histograms, the adjacent bases, the reverse-complement counter) — for every adapter of the
    list, every split of the event log. -/
theorem merged_adapter_statistics (ads : List Matchable) (side : Nat) (e1 e2 : List Event) (a : Nat) (ad : Matchable)
    (h : ads[a]? = some ad) :
    ∃ s1 s2 s, (adapterStats ads side e1)[a]? = some s1 ∧ (adapterStats ads side e2)[a]? = some s2 ∧
      (adapterStats ads side (e1 ++ e2))[a]? = some s ∧ AdapterStatsEq (s1.merge s2) s := by
  obtain ⟨s1, h1, f1, b1, j1, z1, r1, _, _, _⟩ := C20.stats_are_tally ads side e1 a ad h
  obtain ⟨s2, h2, f2, b2, j2, z2, r2, nf2, nb2, na2⟩ := C20.stats_are_tally ads side e2 a ad h
  obtain ⟨s, h3, f3, b3, j3, z3, r3, _, _, _⟩ := C20.stats_are_tally ads side (e1 ++ e2) a ad h
  refine ⟨s1, s2, s, h1, h2, h3, ?_, ?_, ?_, ?_, ?_⟩
  · simp [AdapterStats.merge, r1, r2, r3, appliedTo_append]
  · intro k
    obtain ⟨len, e⟩ := k
    simp only [AdapterStats.merge, EndStats.merge]
    rw [getCount_mergeCounts _ _ _ nf2, f1, f2, f3, appliedTo_append]
    simp
  · intro k
    obtain ⟨len, e⟩ := k
    simp only [AdapterStats.merge, EndStats.merge]
    rw [getCount_mergeCounts _ _ _ nb2, b1, b2, b3, appliedTo_append]
    simp
  · intro k
    simp only [AdapterStats.merge, EndStats.merge]
    rw [getCount_mergeCounts _ _ _ na2, j1, j2, j3, appliedTo_append]
    simp
  · intro k
    simp [AdapterStats.merge, EndStats.merge, z1, z2, z3, mergeCounts, getCount]

/-- … and `mergeAdapterStats` of two complete lists is that position-by-position merge (the lists of two workers are equally long:
    one entry per adapter) -/
theorem mergeAdapterStats_of_runs (ads : List Matchable) (side : Nat) (e1 e2 : List Event) (hne : ads ≠ []) :
    mergeAdapterStats (adapterStats ads side e1) (adapterStats ads side e2)
      = .ok (List.zipWith AdapterStats.merge (adapterStats ads side e1) (adapterStats ads side e2)) := by
  have l1 := C20.stats_length ads side e1
  have l2 := C20.stats_length ads side e2
  have hpos : 0 < ads.length := List.length_pos_iff.mpr hne
  unfold mergeAdapterStats
  have n1 : (adapterStats ads side e1).isEmpty = false := by
    cases hh : adapterStats ads side e1 with
    | nil => rw [hh] at l1; simp at l1; omega
    | cons _ _ => rfl
  have n2 : (adapterStats ads side e2).isEmpty = false := by
    cases hh : adapterStats ads side e2 with
    | nil => rw [hh] at l2; simp at l2; omega
    | cons _ _ => rfl
  simp [n1, n2, l1, l2]

end Cutadapt.C06
