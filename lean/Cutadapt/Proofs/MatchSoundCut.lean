import Cutadapt.Proofs.DpExactCut
/-! C02: position of the reported match relative to the leftmost error-free copy, documented vocabulary. -/
namespace Cutadapt.MatchSound
open Cutadapt Cutadapt.Align Cutadapt.Spec Cutadapt.Generated Cutadapt.Adapters Cutadapt.Align.Exact
open Cutadapt.Align.Sound

theorem hamming_zero_pointwise (eq : Sym → Sym → Bool) : ∀ (xs ys : List Sym), xs.length = ys.length →
    hamming eq xs ys = 0 → ∀ t, t < xs.length → eq (xs.getD t 0) (ys.getD t 0) = true
  | [], [], _, _, t, ht => by simp at ht
  | [], _ :: _, h, _, _, _ => by simp at h
  | _ :: _, [], h, _, _, _ => by simp at h
  | x :: xs, y :: ys, hl, hh, t, ht => by
    simp only [hamming] at hh
    cases t with
    | zero =>
      simp only [List.getD_cons_zero]
      cases hxy : eq x y
      · rw [hxy] at hh; simp at hh
      · rfl
    | succ t =>
      simp only [List.getD_cons_succ]
      exact hamming_zero_pointwise eq xs ys (by simpa using hl) (by omega) t (by simpa using ht)

theorem seg_getD {α : Type} (xs : List α) (a b t : Nat) (d : α) (ht : a + t < b) :
    (seg xs a b).getD t d = xs.getD (a + t) d := by
  unfold seg
  rw [List.getD_eq_getElem?_getD, List.getD_eq_getElem?_getD, List.getElem?_drop, List.getElem?_take_of_lt ht]

theorem hamming_snoc (eq : Sym → Sym → Bool) : ∀ (xs ys : List Sym) (x y : Sym), xs.length = ys.length →
    hamming eq (xs ++ [x]) (ys ++ [y]) = hamming eq xs ys + (if eq x y then 0 else 1)
  | [], [], x, y, _ => by simp [hamming]
  | [], _ :: _, _, _, h => by simp at h
  | _ :: _, [], _, _, h => by simp at h
  | a :: xs, b :: ys, x, y, h => by
    have := hamming_snoc eq xs ys x y (by simpa using h)
    simp only [List.cons_append, hamming, this]; omega

theorem hamming_reverse (eq : Sym → Sym → Bool) : ∀ (xs ys : List Sym), xs.length = ys.length →
    hamming eq xs.reverse ys.reverse = hamming eq xs ys
  | [], [], _ => rfl
  | [], _ :: _, h => by simp at h
  | _ :: _, [], h => by simp at h
  | a :: xs, b :: ys, h => by
    have hl : xs.length = ys.length := by simpa using h
    rw [List.reverse_cons, List.reverse_cons, hamming_snoc eq _ _ _ _ (by simpa using hl),
      hamming_reverse eq xs ys hl]
    simp only [hamming]; omega

theorem locate_cut_doc (a : Adapter) (flags : Nat) (seq read : Bytes) (hlen : seq.length = a.seq.length)
    (hup : ∀ c ∈ seq, ¬ (97 ≤ c ∧ c ≤ 122)) (hmono : ∀ x y, x ≤ y → a.thr x ≤ a.thr y)
    (hsq : (alignerCfg a flags).startInQuery = true) (hstop : (alignerCfg a flags).stopInQuery = true)
    (hm : 1 ≤ seq.length) (hmo : a.minOverlap ≤ seq.length) {p : Nat} (hpn : p + seq.length ≤ read.length)
    (hcopy : hamming (docMatch a.adapterWildcards a.readWildcards) seq (seg read p (p + seq.length)) = 0)
    (hleast : ∀ p', p' < p →
      hamming (docMatch a.adapterWildcards a.readWildcards) seq (seg read p' (p' + seq.length)) ≠ 0) :
    ∃ as ae rs re sc e, locate (alignerCfg a flags) seq read = some (as, ae, rs, re, sc, e) ∧
      rs ≤ p ∧ re ≤ p + seq.length := by
  have hwf : (alignerCfg a flags).WF seq.length := ⟨indelCost_pos a, hmono, by rw [hlen]; rfl⟩
  have hmlen : (mkCtx (alignerCfg a flags) seq read).ref.length = seq.length := encodeRef_length _ _
  have hX : CopyAt (mkCtx (alignerCfg a flags) seq read) p := by
    intro t ht
    rw [hmlen] at ht
    have hpw := hamming_zero_pointwise _ seq (seg read p (p + seq.length))
      (by rw [seg_length' _ _ _ hpn]; omega) hcopy t ht
    rw [seg_getD _ _ _ _ _ (by omega)] at hpw
    rw [docMatch_eq_aligner _ _ _ _ (hup _ (by
      rw [List.getD_eq_getElem?_getD, List.getElem?_eq_getElem ht]; exact List.getElem_mem ht))] at hpw
    unfold delta Ctx.eq
    have e1 : (mkCtx (alignerCfg a flags) seq read).ref.getD t 0
        = encR a.adapterWildcards a.readWildcards (seq.getD t 0) := by
      show (encodeRef (alignerCfg a flags) seq).getD t 0 = _
      rw [encodeRef_eq_map, List.getD_eq_getElem?_getD, List.getD_eq_getElem?_getD, List.getElem?_map,
        List.getElem?_eq_getElem ht]
      rfl
    have e2 : (mkCtx (alignerCfg a flags) seq read).query.getD (p + t) 0
        = encQ a.adapterWildcards a.readWildcards (read.getD (p + t) 0) := by
      have hpt : p + t < read.length := by omega
      show (encodeQuery (alignerCfg a flags) read).getD (p + t) 0 = _
      rw [encodeQuery_eq_map, List.getD_eq_getElem?_getD, List.getD_eq_getElem?_getD, List.getElem?_map,
        List.getElem?_eq_getElem hpt]
      rfl
    rw [e1, e2]
    have : charsEqual (mkCtx (alignerCfg a flags) seq read).ascii
        (encR a.adapterWildcards a.readWildcards (seq.getD t 0))
        (encQ a.adapterWildcards a.readWildcards (read.getD (p + t) 0)) = true := hpw
    rw [this]; rfl
  have hL : ∀ p', p' < p → ¬ ∃ s, lhs s = seg (encodeRef (alignerCfg a flags) seq) 0 seq.length ∧
      rhs s = seg (encodeQuery (alignerCfg a flags) read) p' (p' + seq.length) ∧
      cost (alignerCfg a flags).eq (alignerCfg a flags).indelCost s = 0 := by
    intro p' hp' ⟨s, hl, hr, hc⟩
    rw [encodeRef_eq_map, seg_map] at hl
    rw [encodeQuery_eq_map, seg_map] at hr
    obtain ⟨s', h1, h2, h3⟩ := script_unmap _ _ s _ _ hl hr
    have hc' := h3 (alignerCfg a flags).eq (docMatch a.adapterWildcards a.readWildcards) (indelCost a)
      (fun x hx y => docMatch_eq_aligner a.adapterWildcards a.readWildcards x y (hup x (mem_of_mem_seg hx)))
    have hc0 : cost (docMatch a.adapterWildcards a.readWildcards) (indelCost a) s' = 0 := by
      rw [hc']; exact hc
    obtain ⟨_, hh⟩ := no_indel_script (docMatch a.adapterWildcards a.readWildcards) (indelCost a) s'
      (by have := indelCost_pos a; omega)
    rw [h1, h2, seg_zero_length, hc0] at hh
    exact hleast p' hp' hh
  obtain ⟨hf, ho, hq⟩ := finalBest_cut (alignerCfg a flags) seq read hwf hsq hstop hm hmo hpn hX hL
  refine ⟨(decode (finalBest (alignerCfg a flags) seq read).origin).1, (finalBest (alignerCfg a flags) seq read).refStop,
    (decode (finalBest (alignerCfg a flags) seq read).origin).2, (finalBest (alignerCfg a flags) seq read).queryStop,
    (finalBest (alignerCfg a flags) seq read).score, (finalBest (alignerCfg a flags) seq read).cost, ?_, ?_, hq⟩
  · rw [locate_eq, hf]; rfl
  · rw [decode_snd]; omega

end Cutadapt.MatchSound
