import Cutadapt.Align
import Cutadapt.Spec.Edit
/-! Soundness invariant of the alignment DP (`Align.locate`): every cell with cost ≤ k remembers an admissible
    start and is witnessed by an edit script of at most that cost. Used by C01. Core Lean only. -/
namespace Cutadapt.Align.Sound
open Cutadapt Cutadapt.Align Cutadapt.Spec Cutadapt.Generated

/-- start position (in reference, in query) encoded by an `origin` value -/
def decode (o : Int) : Nat × Nat := if o ≥ 0 then (0, o.toNat) else ((-o).toNat, 0)

structure Ctx where
  cfg : Cfg
  ascii : Bool
  ref : List Sym     -- encoded reference
  query : List Sym   -- encoded query

def Ctx.eq (ctx : Ctx) : Sym → Sym → Bool := charsEqual ctx.ascii

/-- the cell's origin is an admissible start at or before (i,j) and some script from there to (i,j)
    costs at most the cell's cost -/
def Good (ctx : Ctx) (i j : Nat) (e : Entry) : Prop :=
  (decode e.origin).1 ≤ i ∧ (decode e.origin).2 ≤ j ∧
  ((decode e.origin).1 = 0 ∨ ctx.cfg.startInRef = true) ∧
  ((decode e.origin).2 = 0 ∨ ctx.cfg.startInQuery = true) ∧
  ∃ s, lhs s = seg ctx.ref (decode e.origin).1 i ∧ rhs s = seg ctx.query (decode e.origin).2 j ∧
       cost ctx.eq ctx.cfg.indelCost s ≤ e.cost

def GoodK (ctx : Ctx) (i j : Nat) (e : Entry) : Prop := e.cost ≤ ctx.cfg.k → Good ctx i j e

theorem good_sub {ctx : Ctx} {i j : Nat} {d : Entry} (hi : i < ctx.ref.length) (hj : j < ctx.query.length)
    (h : Good ctx i j d) (sc : Int) (extra : Nat)
    (hx : (if ctx.eq ctx.ref[i] ctx.query[j] then 0 else 1) ≤ extra) :
    Good ctx (i+1) (j+1) ⟨d.cost + extra, sc, d.origin⟩ := by
  obtain ⟨h1, h2, h3, h4, s, hl, hr, hc⟩ := h
  refine ⟨by simp only; omega, by simp only; omega, h3, h4, s ++ [Op.sub ctx.ref[i] ctx.query[j]], ?_, ?_, ?_⟩
  · simp only [lhs_append, hl]; rw [seg_succ _ _ _ h1 hi]; simp [lhs, Op.lhs]
  · simp only [rhs_append, hr]; rw [seg_succ _ _ _ h2 hj]; simp [rhs, Op.rhs]
  · simp only [cost_append, cost_single, Op.cost]; omega

theorem good_del {ctx : Ctx} {i j : Nat} {p : Entry} (hi : i < ctx.ref.length)
    (h : Good ctx i j p) (sc : Int) :
    Good ctx (i+1) j ⟨p.cost + ctx.cfg.indelCost, sc, p.origin⟩ := by
  obtain ⟨h1, h2, h3, h4, s, hl, hr, hc⟩ := h
  refine ⟨by simp only; omega, h2, h3, h4, s ++ [Op.del ctx.ref[i]], ?_, ?_, ?_⟩
  · simp only [lhs_append, hl]; rw [seg_succ _ _ _ h1 hi]; simp [lhs, Op.lhs]
  · simp only [rhs_append, hr]; simp [rhs, Op.rhs]
  · simp only [cost_append, cost_single, Op.cost]; omega

theorem good_ins {ctx : Ctx} {i j : Nat} {c : Entry} (hj : j < ctx.query.length)
    (h : Good ctx i j c) (sc : Int) :
    Good ctx i (j+1) ⟨c.cost + ctx.cfg.indelCost, sc, c.origin⟩ := by
  obtain ⟨h1, h2, h3, h4, s, hl, hr, hc⟩ := h
  refine ⟨h1, by simp only; omega, h3, h4, s ++ [Op.ins ctx.query[j]], ?_, ?_, ?_⟩
  · simp only [lhs_append, hl]; simp [lhs, Op.lhs]
  · simp only [rhs_append, hr]; rw [seg_succ _ _ _ h2 hj]; simp [rhs, Op.rhs]
  · simp only [cost_append, cost_single, Op.cost]; omega

/-- one DP cell preserves the invariant -/
theorem cell_goodK {ctx : Ctx} {i j : Nat} {diag cur prev : Entry}
    (hi : i < ctx.ref.length) (hj : j < ctx.query.length)
    (hd : GoodK ctx i j diag) (hc : GoodK ctx (i+1) j cur) (hp : GoodK ctx i (j+1) prev) :
    GoodK ctx (i+1) (j+1) (cell ctx.cfg (ctx.eq ctx.ref[i] ctx.query[j]) diag cur prev) := by
  unfold cell
  by_cases heq : ctx.eq ctx.ref[i] ctx.query[j] = true
  · simp only [heq, if_true]
    intro hk
    have := good_sub hi hj (hd hk) (diag.score + matchScore) 0 (by simp [heq])
    simpa using this
  · rw [if_neg heq]
    by_cases h1 : (decide (diag.cost + 1 ≤ prev.cost + ctx.cfg.indelCost) && decide (diag.cost + 1 ≤ cur.cost + ctx.cfg.indelCost)) = true
    · simp only [h1, if_true]
      intro hk
      have hk' : diag.cost ≤ ctx.cfg.k := by (try simp only at hk); omega
      exact good_sub hi hj (hd hk') _ 1 (by split <;> omega)
    · simp only [h1, Bool.false_eq_true, ↓reduceIte]
      by_cases h2 : prev.cost + ctx.cfg.indelCost ≤ cur.cost + ctx.cfg.indelCost
      · simp only [h2, ↓reduceIte]
        intro hk
        have hk' : prev.cost ≤ ctx.cfg.k := by (try simp only at hk); omega
        exact good_del hi (hp hk') _
      · simp only [h2, ↓reduceIte]
        intro hk
        have hk' : cur.cost ≤ ctx.cfg.k := by (try simp only at hk); omega
        exact good_ins hj (hc hk') _

end Cutadapt.Align.Sound
