import Cutadapt.Proofs.StepsFate
import Cutadapt.Proofs.StepsPrefix
/-! Lemmas for C15: which writers a step can write to, record lists per writer, a small permutation toolkit. -/
namespace Cutadapt.Steps
open Cutadapt

theorem stepS_writes_mem {ads : List Matchable} {idx : Nat} {s : Step} {r : Read} {i : Info} {o e}
    (h : stepS ads idx s r i = .ok (o, e)) {w : Nat} {a : Read} {b : Option Read} (hw : Event.write w a b ∈ e) :
    w ∈ s.writers ∧ a = r ∧ b = none := by
  by_cases hp : s.isPass = true
  · rcases stepS_pass hp h with ⟨-, ht⟩ | ⟨-, p, p2, mode, w', rfl, -, rfl⟩
    · have := ht _ hw; simp [isText] at this
    · cases w' <;> simp [redir] at hw
      simp [Step.writers, hw]
  · have hf : s.isFinal = true := by cases s <;> simp_all [Step.isPass, Step.isFinal]
    obtain ⟨-, hcase⟩ := stepS_final hf h
    rcases hcase with ⟨w', hw', rfl | rfl⟩ | ⟨rfl, -⟩
    · simp at hw; simp [hw, hw']
    · simp at hw; simp [hw, hw']
    · simp at hw

theorem runPrefixS_writes {ads : List Matchable} {pre : List Step} {idx : Nat} {r : Read} {i : Info} {o e}
    (h : runPrefixS ads pre idx r i = .ok (o, e)) {w : Nat} {a : Read} {b : Option Read} (hw : Event.write w a b ∈ e) :
    ∃ s ∈ pre, w ∈ s.writers := by
  induction pre generalizing idx r e o with
  | nil =>
    simp only [runPrefixS, Except.ok.injEq, Prod.mk.injEq] at h
    obtain ⟨-, rfl⟩ := h
    simp at hw
  | cons s ss ih =>
    simp only [runPrefixS] at h
    split at h
    · simp at h
    · rename_i e' hs
      simp only [Except.ok.injEq, Prod.mk.injEq] at h
      obtain ⟨-, rfl⟩ := h
      exact ⟨s, by simp, (stepS_writes_mem hs hw).1⟩
    · rename_i r' e' hs
      split at h
      · simp at h
      · rename_i o2 e2 h2
        simp only [Except.ok.injEq, Prod.mk.injEq] at h
        obtain ⟨-, rfl⟩ := h
        rcases List.mem_append.1 hw with hw | hw
        · exact ⟨s, by simp, (stepS_writes_mem hs hw).1⟩
        · obtain ⟨s', hs', hw'⟩ := ih h2 hw
          exact ⟨s', by simp [hs'], hw'⟩

theorem recordsTo_eq_nil {W : List Nat} {evs : List Event} (h : ∀ w a b, Event.write w a b ∈ evs → w ∉ W) :
    recordsTo W evs = [] := by
  rw [recordsTo, List.filterMap_eq_nil_iff]
  intro ev hev
  cases ev with
  | write w a b => simp [h w a b hev]
  | _ => rfl

theorem recordsTo_flatten (W : List Nat) (L : List (List Event)) :
    recordsTo W L.flatten = (L.map (recordsTo W)).flatten := by
  unfold recordsTo
  rw [List.filterMap_flatten]

/-! ### permutations -/

theorem flatMap_append_perm (l : List α) (f g : α → List β) :
    (l.flatMap fun x => f x ++ g x).Perm (l.flatMap f ++ l.flatMap g) := by
  induction l with
  | nil => simp
  | cons a l ih =>
    simp only [List.flatMap_cons]
    -- f a ++ g a ++ rest ~ f a ++ l.flatMap f ++ (g a ++ l.flatMap g)
    have h1 : (f a ++ g a ++ l.flatMap fun x => f x ++ g x).Perm (f a ++ g a ++ (l.flatMap f ++ l.flatMap g)) :=
      List.Perm.append_left _ ih
    refine h1.trans ?_
    rw [List.append_assoc, List.append_assoc]
    refine List.Perm.append_left _ ?_
    rw [← List.append_assoc, ← List.append_assoc]
    exact List.Perm.append_right _ List.perm_append_comm

theorem flatMap_single {W : List Nat} (hW : W.Nodup) {w : Nat} (hw : w ∈ W) (x : β) :
    W.flatMap (fun w' => if w' = w then [x] else []) = [x] := by
  induction W with
  | nil => simp at hw
  | cons a W ih =>
    rw [List.nodup_cons] at hW
    simp only [List.flatMap_cons]
    by_cases ha : a = w
    · subst ha
      have : W.flatMap (fun w' => if w' = a then [x] else []) = [] := by
        rw [List.flatMap_eq_nil_iff]
        intro y hy
        have : y ≠ a := fun e => hW.1 (e ▸ hy)
        simp [this]
      simp [this]
    · have hw' : w ∈ W := by
        rcases List.mem_cons.1 hw with h | h
        · exact absurd h.symm ha
        · exact h
      simp [ha, ih hW.2 hw']

theorem flatMap_nil' (W : List α) : W.flatMap (fun _ => ([] : List β)) = [] := by
  simp

/-- the converse of `run_is_concat` -/
theorem runReads_of_ok {f : α → Except Err (List Event)} {g : α → List Event} {reads : List α}
    (h : ∀ r ∈ reads, f r = .ok (g r)) : runReads f reads [] = ((reads.map g).flatten, none) := by
  induction reads with
  | nil => rfl
  | cons r rs ih =>
    simp only [runReads, h r (by simp), List.nil_append]
    rw [runReads_acc, ih (fun x hx => h x (by simp [hx]))]
    simp

theorem flatMap_congr_mem {l : List α} {f g : α → List β} (h : ∀ x ∈ l, f x = g x) : l.flatMap f = l.flatMap g := by
  induction l with
  | nil => rfl
  | cons a l ih => simp [List.flatMap_cons, h a (by simp), ih (fun x hx => h x (by simp [hx]))]

/-- lifting a per-read partition of records to whole runs -/
theorem perm_lift (W : List Nat) (reads : List α) (A : α → List β) (B : Nat → α → List β)
    (h : ∀ r ∈ reads, A r = W.flatMap (fun w => B w r)) :
    ((reads.map A).flatten).Perm (W.flatMap (fun w => (reads.map (B w)).flatten)) := by
  induction reads with
  | nil => simp
  | cons r rs ih =>
    simp only [List.map_cons, List.flatten_cons]
    refine List.Perm.trans ?_ (flatMap_append_perm W (fun w => B w r) (fun w => (rs.map (B w)).flatten)).symm
    rw [h r (by simp)]
    exact List.Perm.append_left _ (ih (fun x hx => h x (by simp [hx])))

theorem recordsTo_counters {W : List Nat} {evs : List Event} (h : ∀ ev ∈ evs, isCounter ev = true) :
    recordsTo W evs = [] :=
  recordsTo_eq_nil (fun w a b hw => by have := h _ hw; simp [isCounter] at this)
end Cutadapt.Steps
