import Cutadapt.Tokenizer
/-! `tokenize_braces` loses nothing: the accepted tokens, written back with their braces, are the template; and no token value
    contains a brace (so `str.format` on the template and token-wise rendering agree: there are no `{{`/`}}` escapes and no
    format specifications in an accepted template). -/
namespace Cutadapt.Tokenizer
open Cutadapt

def varBytes (v : String) : Bytes := v.toList.map (fun c => c.toNat.toUInt8)

/-- a token written back -/
def renderTok1 : Tok → Bytes
  | .lit s => s
  | .var v => lbrace :: varBytes v ++ [rbrace]

def renderTemplate (toks : List Tok) : Bytes := (toks.map renderTok1).flatten

/-- no brace inside a token value -/
def TokClean : Tok → Prop
  | .lit s => s ≠ [] ∧ lbrace ∉ s ∧ rbrace ∉ s
  | .var v => lbrace ∉ varBytes v ∧ rbrace ∉ varBytes v

theorem checkPiece_ok {v : Bytes} (h : checkPiece v = .ok ()) : lbrace ∉ v ∧ rbrace ∉ v := by
  unfold checkPiece at h
  split at h
  · cases h
  · split at h
    · cases h
    · rename_i h1 h2
      exact ⟨by simpa using h1, by simpa using h2⟩

theorem flushLit_ok {lit : Bytes} {acc acc' : List Tok} (h : flushLit lit acc = .ok acc') :
    renderTemplate acc'.reverse = renderTemplate acc.reverse ++ lit ∧ ((∀ t ∈ acc, TokClean t) → ∀ t ∈ acc', TokClean t) := by
  unfold flushLit at h
  split at h
  · rename_i he
    cases h
    have : lit = [] := by simpa using he
    subst this
    simp
  · rename_i hne
    split at h
    · cases h
    · rename_i hc
      cases h
      obtain ⟨c1, c2⟩ := checkPiece_ok hc
      refine ⟨by simp [renderTemplate, renderTok1], ?_⟩
      intro hall t ht
      rcases List.mem_cons.mp ht with rfl | ht
      · exact ⟨by intro e; subst e; simp at hne, c1, c2⟩
      · exact hall t ht

theorem char_toNat_ofNat (n : Nat) (h : n < 128) : (Char.ofNat n).toNat = n := by
  have hv : n.isValidChar := Or.inl (by omega)
  unfold Char.ofNat
  rw [dif_pos hv]
  simp [Char.ofNatAux, Char.toNat, UInt32.toNat_ofNatLT]

theorem varBytes_ofList (inner : Bytes) (h : ∀ b ∈ inner, b < 128) :
    varBytes (String.ofList (inner.map (fun b => Char.ofNat b.toNat))) = inner := by
  unfold varBytes
  rw [String.toList_ofList, List.map_map]
  conv => rhs; rw [← List.map_id inner]
  apply List.map_congr_left
  intro b hb
  have hb' : b.toNat < 128 := h b hb
  simp only [Function.comp, id, char_toNat_ofNat _ hb']
  exact UInt8.ofNat_toNat

theorem takeWhile_dropWhile_rbrace (rest : Bytes) (h : rest.contains rbrace = true) :
    rest = rest.takeWhile (· != rbrace) ++ rbrace :: (rest.dropWhile (· != rbrace)).drop 1 := by
  induction rest with
  | nil => simp at h
  | cons c cs ih =>
    by_cases hc : c = rbrace
    · subst hc
      simp [List.takeWhile, List.dropWhile]
    · have hne : (c != rbrace) = true := by simpa using hc
      have hcs : cs.contains rbrace = true := by
        simp only [List.contains_cons] at h
        rcases Bool.or_eq_true _ _ |>.mp h with h1 | h1
        · exact absurd (by simpa using h1 : rbrace = c).symm hc
        · exact h1
      simp only [List.takeWhile_cons, List.dropWhile_cons, hne, if_true, List.cons_append]
      exact congrArg _ (ih hcs)

/-- invariant of the scan: what has been emitted, the pending literal and the rest of the input spell the template -/
theorem scan_sound (fuel : Nat) : ∀ (rest lit : Bytes) (acc : List Tok) (toks : List Tok),
    (∀ b ∈ rest, b < 128) → scan fuel rest lit acc = .ok toks →
    (rest.length < fuel ∨ rest = []) →
    renderTemplate toks = renderTemplate acc.reverse ++ lit.reverse ++ rest ∧ ((∀ t ∈ acc, TokClean t) → ∀ t ∈ toks, TokClean t) := by
  induction fuel with
  | zero =>
    intro rest lit acc toks _ h hf
    have : rest = [] := by rcases hf with h1 | h1; exact absurd h1 (Nat.not_lt_zero _); exact h1
    subst this
    simp only [scan] at h
    cases hfl : flushLit lit.reverse acc with
    | error e => rw [hfl] at h; cases h
    | ok acc' =>
      rw [hfl] at h
      simp only [Except.map] at h
      cases h
      obtain ⟨r1, r2⟩ := flushLit_ok hfl
      refine ⟨by simpa using r1, fun hall t ht => r2 hall t (List.mem_reverse.mp ht)⟩
  | succ fuel ih =>
    intro rest lit acc toks hascii h hf
    cases rest with
    | nil =>
      simp only [scan] at h
      cases hfl : flushLit lit.reverse acc with
      | error e => rw [hfl] at h; cases h
      | ok acc' =>
        rw [hfl] at h
        simp only [Except.map] at h
        cases h
        obtain ⟨r1, r2⟩ := flushLit_ok hfl
        refine ⟨by simpa using r1, fun hall t ht => r2 hall t (List.mem_reverse.mp ht)⟩
    | cons c cs =>
      have hlen : cs.length < fuel ∨ cs = [] := by
        rcases hf with h1 | h1
        · left; simp at h1; omega
        · cases h1
      simp only [scan] at h
      split at h
      · rename_i hcond
        obtain ⟨hc, hcont⟩ := Bool.and_eq_true _ _ |>.mp hcond
        have hc' : c = lbrace := by simpa using hc
        subst hc'
        cases hfl : flushLit lit.reverse acc with
        | error e => rw [hfl] at h; cases h
        | ok acc' =>
          rw [hfl] at h
          simp only at h
          cases hcp : checkPiece (cs.takeWhile (· != rbrace)) with
          | error e => rw [hcp] at h; cases h
          | ok u =>
            rw [hcp] at h
            simp only at h
            have hsplit := takeWhile_dropWhile_rbrace cs hcont
            have hinner_ascii : ∀ b ∈ cs.takeWhile (· != rbrace), b < 128 := fun b hb =>
              hascii b (List.mem_cons_of_mem _ ((List.takeWhile_prefix _).subset hb))
            have hafter_ascii : ∀ b ∈ (cs.dropWhile (· != rbrace)).drop 1, b < 128 := fun b hb =>
              hascii b (List.mem_cons_of_mem _ ((List.dropWhile_suffix _).subset (List.mem_of_mem_drop hb)))
            have hafter_len : ((cs.dropWhile (· != rbrace)).drop 1).length < fuel ∨ (cs.dropWhile (· != rbrace)).drop 1 = [] := by
              rcases hlen with h1 | h1
              · left
                have : ((cs.dropWhile (· != rbrace)).drop 1).length ≤ cs.length := by
                  rw [List.length_drop]
                  have := (List.dropWhile_suffix (l := cs) (· != rbrace)).length_le
                  omega
                omega
              · subst h1; simp at hcont
            obtain ⟨q1, q2⟩ := ih _ [] _ toks hafter_ascii h hafter_len
            obtain ⟨r1, r2⟩ := flushLit_ok hfl
            obtain ⟨c1, c2⟩ := checkPiece_ok hcp
            have hv := varBytes_ofList (cs.takeWhile (· != rbrace)) hinner_ascii
            refine ⟨?_, ?_⟩
            · rw [q1]
              simp only [List.reverse_cons, renderTemplate, List.map_append, List.map_cons, List.map_nil, List.flatten_append,
                List.flatten_cons, List.flatten_nil, List.append_nil, renderTok1, hv, List.reverse_nil]
              have r1' : (List.map renderTok1 acc'.reverse).flatten = (List.map renderTok1 acc.reverse).flatten ++ lit.reverse := by
                simpa [renderTemplate] using r1
              rw [r1']
              conv => rhs; rw [hsplit]
              simp [List.append_assoc]
            · intro hall
              apply q2
              intro t ht
              rcases List.mem_cons.mp ht with rfl | ht
              · exact ⟨by rw [hv]; exact c1, by rw [hv]; exact c2⟩
              · exact r2 hall t ht
      · obtain ⟨q1, q2⟩ := ih cs (c :: lit) acc toks (fun b hb => hascii b (List.mem_cons_of_mem _ hb)) h hlen
        exact ⟨by rw [q1]; simp, q2⟩

/-- **An accepted template is reproduced by its tokens**, and no token value contains a brace: for ASCII templates,
    `tokenize_braces(s) = toks` implies that writing the tokens back (`{name}` for a placeholder) gives `s`. -/
theorem tokenize_sound (s : Bytes) (toks : List Tok) (hascii : ∀ b ∈ s, b < 128) (h : tokenizeBraces s = .ok toks) :
    renderTemplate toks = s ∧ ∀ t ∈ toks, TokClean t := by
  obtain ⟨h1, h2⟩ := scan_sound (s.length + 1) s [] [] toks hascii h (Or.inl (Nat.lt_succ_self _))
  exact ⟨by simpa [renderTemplate] using h1, h2 (by simp)⟩

end Cutadapt.Tokenizer
