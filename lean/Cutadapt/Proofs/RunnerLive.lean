import Cutadapt.Proofs.RunnerStats
/-! Reachable states satisfy the invariants; what holds when the main process has finished; absence of deadlock;
    the termination measure; persistence of faults. -/
namespace Cutadapt.Runner
variable {Chunk Stats Fault : Type} {cfg : Config Chunk Stats Fault} {s s' : State Stats}

/-! ## When the main process has returned or raised -/

/-- what is known once `run` has returned normally -/
structure OkFacts (cfg : Config Chunk Stats Fault) (s : State Stats) : Prop where
  noReaderFault : cfg.readerFault = false
  rfailed : s.rfailed = false
  finished : ∀ w, w < cfg.nWorkers → (s.workers w).phase = .finished
  closed : ∀ w, w < cfg.nWorkers → s.isOpen w = false
  drained : ∀ w, w < cfg.nWorkers → (s.workers w).outbox = []
  all : ∀ i, s.received.count i = if i < cfg.chunks.length then 1 else 0

structure EndInv (cfg : Config Chunk Stats Fault) (s : State Stats) : Prop where
  ok : s.outcome = .ok → OkFacts cfg s
  failed : s.outcome = .failed → ∃ w, w < cfg.nWorkers ∧ (s.workers w).phase = .failed

theorem allDone_iff : allDone cfg s = true ↔
    (∀ w, w < cfg.nWorkers → s.isOpen w = false ∧ (s.workers w).phase = .finished) ∧ s.pills = cfg.nWorkers := by
  simp [allDone, List.all_eq_true]

theorem RunInv.pillWk_le (h : RunInv cfg s) {w : Nat} (hw : w < cfg.nWorkers) : pillWk (s.workers w) ≤ 1 := by
  have hq := h.queue w hw
  have hp := count_pill_le_nonErr (s.workers w).inbox
  unfold pillWk
  cases hph : (s.workers w).phase <;> simp only [hph, QOk] at hq <;> simp <;> omega

theorem okFacts_of_allDone (hn : 0 < cfg.nWorkers) (h : RunInv cfg s) (hd : allDone cfg s = true) : OkFacts cfg s := by
  obtain ⟨hall, hp⟩ := allDone_iff.mp hd
  have hpp := h.pills_pos (by omega)
  have hdr : ∀ w, w < cfg.nWorkers → (s.workers w).outbox = [] := fun w hw => by
    have ho := h.outbox w hw
    simp only [OutboxOk, (hall w hw).2] at ho
    exact ho.2 (hall w hw).1
  refine ⟨hpp.2, ?_, fun w hw => (hall w hw).2, fun w hw => (hall w hw).1, hdr, ?_⟩
  · cases hr : s.rfailed with
    | false => rfl
    | true => have := (h.rfailed hr).1; rw [hpp.2] at this; cases this
  · intro i
    have hz : sumW cfg.nWorkers (fun w => cntWk i (s.workers w)) = cfg.nWorkers * 0 :=
      sumW_eq_const 0 (fun w hw => by
        have hq := h.queue w hw
        have hl := h.lost w hw (by simp [(hall w hw).2])
        have hc := count_chunk_le_nonErr i (s.workers w).inbox
        simp only [(hall w hw).2, QOk] at hq
        simp only [cntWk, (hall w hw).2, cntProc, hdr w hw, cntRes, hl]
        simp; omega)
    have := h.once i
    rw [hz, hpp.1] at this
    omega

/-! ## Reachable states -/

theorem endInv_of_running (h : s.outcome = .running) : EndInv cfg s :=
  ⟨fun h' => (by rw [h] at h'; cases h'), fun h' => (by rw [h] at h'; cases h')⟩

theorem reachable_inv (hn : 0 < cfg.nWorkers) (hr : Reachable cfg s) :
    SafeInv cfg s ∧ (s.outcome = .running → RunInv cfg s) ∧ EndInv cfg s := by
  induction hr with
  | init =>
    exact ⟨safeInv_init cfg, fun _ => runInv_init cfg, ⟨fun h => by simp [init] at h, fun h => by simp [init] at h⟩⟩
  | @step s s' a _ hs ih =>
    have hrun := step_running hs
    have hinv := ih.2.1 hrun
    refine ⟨safeInv_step hinv ih.1 hs, fun hr' => runInv_step hinv hs hr', ?_⟩
    cases a with
    | workerRequest w => obtain ⟨_, _, rfl⟩ := step_workerRequest hs; exact endInv_of_running hrun
    | readerSend => obtain ⟨_, _, w, q, _, rfl⟩ := step_readerSend hs; exact endInv_of_running hrun
    | readerPill => obtain ⟨_, _, _, _, w, q, _, rfl⟩ := step_readerPill hs; exact endInv_of_running hrun
    | readerFault => obtain ⟨_, _, _, rfl⟩ := step_readerFault hs; exact endInv_of_running hrun
    | workerStep w =>
      obtain ⟨_, hcase⟩ := step_workerStep hs
      rcases hcase with ⟨_, _, _, _, rfl⟩ | ⟨_, _, _, rfl⟩ | ⟨_, _, _, rfl⟩ | ⟨_, _, _, _, _, _, _, rfl⟩ | ⟨_, _, _, _, _, _, rfl⟩ <;>
        exact endInv_of_running hrun
    | mainFinish =>
      obtain ⟨hd, rfl⟩ := step_mainFinish hs
      have hf := okFacts_of_allDone hn hinv hd
      exact ⟨fun _ => ⟨hf.noReaderFault, hf.rfailed, hf.finished, hf.closed, hf.drained, hf.all⟩, fun h => (by cases h)⟩
    | mainRecv w =>
      obtain ⟨hw, hop, hcase⟩ := step_mainRecv hs
      rcases hcase with ⟨i, d, rest, hout, rfl⟩ | ⟨st, rest, hout, rfl⟩ | ⟨rest, hout, rfl⟩
      · exact endInv_of_running hrun
      · exact endInv_of_running hrun
      · refine ⟨fun h => (by cases h), fun _ => ⟨w, hw, ?_⟩⟩
        have ho := hinv.outbox w hw
        show ((s.setW w _).workers w).phase = .failed
        rw [setW_workers_same]
        show (s.workers w).phase = .failed
        unfold OutboxOk at ho
        split at ho
        · obtain ⟨pre, hpre, hres⟩ := ho.1 hop
          rw [hout] at hpre
          cases pre with
          | nil => simp at hpre
          | cons a pre' =>
            simp at hpre
            obtain ⟨i, d, hm⟩ := hres a (by simp)
            rw [← hpre.1] at hm; cases hm
        · rename_i hph; exact hph
        · obtain ⟨i, d, hm⟩ := ho.2 .workerError (by rw [hout]; simp)
          cases hm

theorem reachable_stats (hm : IsCommMonoid cfg.add cfg.zero) (hn : 0 < cfg.nWorkers) (hr : Reachable cfg s) : StatsInv cfg s := by
  induction hr with
  | init => exact statsInv_init hm
  | @step s s' a hr' hs ih =>
    exact statsInv_step hm ((reachable_inv hn hr').2.1 (step_running hs)) ih hs

/-! ## No deadlock -/

theorem enabled_of_running (hn : 0 < cfg.nWorkers) (h : RunInv cfg s) (hrun : s.outcome = .running) :
    ∃ a, (step cfg s a).isSome = true := by
  -- a worker about to put its id on the queue
  by_cases h1 : ∃ w, w < cfg.nWorkers ∧ (s.workers w).phase = .idle
  · obtain ⟨w, hw, hph⟩ := h1
    exact ⟨.workerRequest w, by simp only [step]; rw [if_pos ⟨hrun, hw, hph⟩]; rfl⟩
  -- a worker inside `process_reads`
  by_cases h2 : ∃ w i, w < cfg.nWorkers ∧ (s.workers w).phase = .processing i
  · obtain ⟨w, i, hw, hph⟩ := h2
    have hlt : i < cfg.chunks.length := by
      have := h.cnt_lt hw (i := i) (by simp [cntWk, hph, cntProc]; omega)
      have := h.next_le
      omega
    have hc : cfg.chunks[i]? = some cfg.chunks[i] := List.getElem?_eq_getElem hlt
    cases hp : cfg.process cfg.chunks[i] with
    | ok r => obtain ⟨d, st⟩ := r; exact ⟨.workerStep w, by simp only [step]; rw [if_pos ⟨hrun, hw⟩]; simp only [hph, hc, hp]; rfl⟩
    | error e => exact ⟨.workerStep w, by simp only [step]; rw [if_pos ⟨hrun, hw⟩]; simp only [hph, hc, hp]; rfl⟩
  -- a worker whose `recv` can return
  by_cases h3 : ∃ w, w < cfg.nWorkers ∧ (s.workers w).phase = .requested ∧ (s.workers w).inbox ≠ []
  · obtain ⟨w, hw, hph, hin⟩ := h3
    cases hi : (s.workers w).inbox with
    | nil => exact absurd hi hin
    | cons m rest =>
      cases m with
      | chunk i => exact ⟨.workerStep w, by simp only [step]; rw [if_pos ⟨hrun, hw⟩]; simp only [hph, hi]; rfl⟩
      | pill => exact ⟨.workerStep w, by simp only [step]; rw [if_pos ⟨hrun, hw⟩]; simp only [hph, hi]; rfl⟩
      | readerError => exact ⟨.workerStep w, by simp only [step]; rw [if_pos ⟨hrun, hw⟩]; simp only [hph, hi]; rfl⟩
  -- a message for the main process
  by_cases h4 : ∃ w, w < cfg.nWorkers ∧ s.isOpen w = true ∧ (s.workers w).outbox ≠ []
  · obtain ⟨w, hw, hop, hout⟩ := h4
    cases ho : (s.workers w).outbox with
    | nil => exact absurd ho hout
    | cons m rest =>
      cases m with
      | result i d => exact ⟨.mainRecv w, by simp only [step]; rw [if_pos ⟨hrun, hw, hop⟩]; simp only [ho]; rfl⟩
      | done st => exact ⟨.mainRecv w, by simp only [step]; rw [if_pos ⟨hrun, hw, hop⟩]; simp only [ho]; rfl⟩
      | workerError => exact ⟨.mainRecv w, by simp only [step]; rw [if_pos ⟨hrun, hw, hop⟩]; simp only [ho]; rfl⟩
  -- otherwise every worker is blocked in `recv` with an empty inbox, or has finished and its connection is removed
  have hphase : ∀ w, w < cfg.nWorkers →
      ((s.workers w).phase = .requested ∧ (s.workers w).inbox = []) ∨ ((s.workers w).phase = .finished ∧ s.isOpen w = false) := by
    intro w hw
    have ho := h.outbox w hw
    cases hph : (s.workers w).phase with
    | idle => exact absurd ⟨w, hw, hph⟩ h1
    | processing i => exact absurd ⟨w, i, hw, hph⟩ h2
    | requested =>
      left; refine ⟨rfl, ?_⟩
      cases hi : (s.workers w).inbox with
      | nil => rfl
      | cons m r => exact absurd ⟨w, hw, hph, by rw [hi]; simp⟩ h3
    | finished =>
      right; refine ⟨rfl, ?_⟩
      simp only [OutboxOk, hph] at ho
      cases hop : s.isOpen w with
      | false => rfl
      | true =>
        obtain ⟨pre, hpre, _⟩ := ho.1 hop
        exact absurd ⟨w, hw, hop, by rw [hpre]; simp⟩ h4
    | failed =>
      simp only [OutboxOk, hph] at ho
      obtain ⟨hop, pre, hpre, _⟩ := ho
      exact absurd ⟨w, hw, hop, by rw [hpre]; simp⟩ h4
  by_cases h5 : ∃ w, w < cfg.nWorkers ∧ (s.workers w).phase = .requested
  · obtain ⟨w, hw, hph⟩ := h5
    have hin : (s.workers w).inbox = [] := by
      rcases hphase w hw with ⟨_, hi⟩ | ⟨hf, _⟩
      · exact hi
      · rw [hph] at hf; cases hf
    have hq := h.queue w hw
    simp only [hph, hin, nonErr, QOk] at hq
    have hmem : w ∈ s.queue := List.count_pos_iff.mp (by omega)
    cases hqu : s.queue with
    | nil => rw [hqu] at hmem; simp at hmem
    | cons v q =>
      cases hrf : s.rfailed with
      | true =>
        rcases h.rerr hrf w hw with hf | hm
        · rw [hph] at hf; cases hf
        · rw [hin] at hm; simp at hm
      | false =>
        by_cases hlt : s.next < cfg.chunks.length
        · exact ⟨.readerSend, by simp only [step]; rw [if_pos ⟨hrun, hrf, hlt⟩]; simp only [hqu]; rfl⟩
        · have hnext : s.next = cfg.chunks.length := by have := h.next_le; omega
          cases hfl : cfg.readerFault with
          | true => exact ⟨.readerFault, by simp only [step]; rw [if_pos ⟨hrun, hrf, hfl, hnext⟩]; rfl⟩
          | false =>
            by_cases hpl : s.pills < cfg.nWorkers
            · exact ⟨.readerPill, by simp only [step]; rw [if_pos ⟨hrun, hrf, hfl, hnext, hpl⟩]; simp only [hqu]; rfl⟩
            · -- all pills are out, each worker got exactly one: but `w` has none
              exfalso
              have hle := sumW_le (n := cfg.nWorkers) (f := fun v => pillWk (s.workers v)) (fun v hv => h.pillWk_le hv)
              have hps := h.pillsum
              have hfull := sumW_full (n := cfg.nWorkers) (f := fun v => pillWk (s.workers v)) (fun v hv => h.pillWk_le hv) (by omega) w hw
              simp [pillWk, hin, hph] at hfull
  · -- every worker has finished and every connection is removed
    have hall : ∀ w, w < cfg.nWorkers → s.isOpen w = false ∧ (s.workers w).phase = .finished := by
      intro w hw
      rcases hphase w hw with ⟨hr, _⟩ | ⟨hf, hc⟩
      · exact absurd ⟨w, hw, hr⟩ h5
      · exact ⟨hc, hf⟩
    have hp : s.pills = cfg.nWorkers := by
      rw [h.pillsum]
      have := sumW_eq_const (n := cfg.nWorkers) (f := fun v => pillWk (s.workers v)) 1 (fun v hv => by
        have := h.pillWk_le hv
        have : 1 ≤ pillWk (s.workers v) := by simp [pillWk, (hall v hv).2]
        omega)
      omega
    exact ⟨.mainFinish, by simp only [step]; rw [if_pos ⟨hrun, allDone_iff.mpr ⟨hall, hp⟩⟩]; rfl⟩

/-! ## Termination measure -/

def phaseWeight : Phase → Nat
  | .idle => 2
  | .requested => 1
  | .processing _ => 4
  | .finished => 0
  | .failed => 0

def inboxWeight : List InMsg → Nat
  | [] => 0
  | .chunk _ :: r => inboxWeight r + 4
  | .pill :: r => inboxWeight r + 1
  | .readerError :: r => inboxWeight r + 1

def workerWeight (W : Worker Stats) : Nat := phaseWeight W.phase + inboxWeight W.inbox + W.outbox.length

/-- chunks unsent (×5), pills unsent (×2), the reader's pending fault (×(n+1)), per worker: phase, messages in its
    inbox and outbox; plus one while the main process is in its loop -/
def measure (cfg : Config Chunk Stats Fault) (s : State Stats) : Nat :=
  5 * (cfg.chunks.length - s.next) + 2 * (cfg.nWorkers - s.pills)
  + (cfg.nWorkers + 1) * (if cfg.readerFault = true ∧ s.rfailed = false then 1 else 0)
  + sumW cfg.nWorkers (fun w => workerWeight (s.workers w))
  + (if s.outcome = .running then 1 else 0)

theorem inboxWeight_append (a b : List InMsg) : inboxWeight (a ++ b) = inboxWeight a + inboxWeight b := by
  induction a with
  | nil => simp [inboxWeight]
  | cons m r ih => cases m <;> simp [inboxWeight, ih] <;> omega

/-- all actions except the reader's fault change one worker, the reader's counters and the outcome only -/
theorem measure_lt_of {w : Nat} {W' : Worker Stats} (hw : w < cfg.nWorkers)
    (hwk : ∀ v, s'.workers v = if v = w then W' else s.workers v) (hrf : s'.rfailed = s.rfailed)
    (hlt : 5 * (cfg.chunks.length - s'.next) + 2 * (cfg.nWorkers - s'.pills) + workerWeight W' + (if s'.outcome = .running then 1 else 0)
         < 5 * (cfg.chunks.length - s.next) + 2 * (cfg.nWorkers - s.pills) + workerWeight (s.workers w) + (if s.outcome = .running then 1 else 0)) :
    measure cfg s' < measure cfg s := by
  have hsum := sumW_update (n := cfg.nWorkers) (w := w) (f := fun v => workerWeight (s.workers v)) (g := fun v => workerWeight (s'.workers v)) hw
    (fun v hv => by simp only [hwk v, hv, if_false])
  have hsame : s'.workers w = W' := by rw [hwk]; simp
  simp only [hsame] at hsum
  unfold measure
  rw [hrf]
  omega

/-- the same for a change at an index that is not a worker (does not happen in reachable states) -/
theorem measure_lt_of_out {w : Nat} {W' : Worker Stats} (hw : ¬ w < cfg.nWorkers)
    (hwk : ∀ v, s'.workers v = if v = w then W' else s.workers v) (hrf : s'.rfailed = s.rfailed)
    (hlt : 5 * (cfg.chunks.length - s'.next) + 2 * (cfg.nWorkers - s'.pills) + (if s'.outcome = .running then 1 else 0)
         < 5 * (cfg.chunks.length - s.next) + 2 * (cfg.nWorkers - s.pills) + (if s.outcome = .running then 1 else 0)) :
    measure cfg s' < measure cfg s := by
  have hsum := sumW_congr (n := cfg.nWorkers) (f := fun v => workerWeight (s.workers v)) (g := fun v => workerWeight (s'.workers v))
    (fun v hv => by
      have : v ≠ w := fun e => hw (e ▸ hv)
      simp only [hwk v, this, if_false])
  unfold measure
  rw [hrf, hsum]
  omega

theorem measure_decreases {a : Action} (hs : step cfg s a = some s') : measure cfg s' < measure cfg s := by
  have hrun := step_running hs
  cases a with
  | workerRequest w =>
    obtain ⟨hw, hph, rfl⟩ := step_workerRequest hs
    refine measure_lt_of hw (fun _ => rfl) rfl ?_
    show _ + workerWeight _ + (if s.outcome = .running then 1 else 0) < _
    simp only [workerWeight, hph, phaseWeight, setW_next, setW_pills]
    show 5 * (cfg.chunks.length - s.next) + 2 * (cfg.nWorkers - s.pills) + _ + _ < _
    omega
  | readerSend =>
    obtain ⟨_, hlt, w, q, hq, rfl⟩ := step_readerSend hs
    by_cases hw : w < cfg.nWorkers
    · refine measure_lt_of hw (fun _ => rfl) rfl ?_
      show 5 * (cfg.chunks.length - (s.next + 1)) + 2 * (cfg.nWorkers - s.pills) + workerWeight _ + (if s.outcome = .running then 1 else 0) < _
      simp only [workerWeight, inboxWeight_append, inboxWeight]
      omega
    · refine measure_lt_of_out hw (fun _ => rfl) rfl ?_
      show 5 * (cfg.chunks.length - (s.next + 1)) + 2 * (cfg.nWorkers - s.pills) + (if s.outcome = .running then 1 else 0) < _
      omega
  | readerPill =>
    obtain ⟨_, _, _, hpl, w, q, hq, rfl⟩ := step_readerPill hs
    by_cases hw : w < cfg.nWorkers
    · refine measure_lt_of hw (fun _ => rfl) rfl ?_
      show 5 * (cfg.chunks.length - s.next) + 2 * (cfg.nWorkers - (s.pills + 1)) + workerWeight _ + (if s.outcome = .running then 1 else 0) < _
      simp only [workerWeight, inboxWeight_append, inboxWeight]
      omega
    · refine measure_lt_of_out hw (fun _ => rfl) rfl ?_
      show 5 * (cfg.chunks.length - s.next) + 2 * (cfg.nWorkers - (s.pills + 1)) + (if s.outcome = .running then 1 else 0) < _
      omega
  | readerFault =>
    obtain ⟨hrf, hfl, _, rfl⟩ := step_readerFault hs
    have hsum := sumW_add_const (n := cfg.nWorkers) (f := fun v => workerWeight (s.workers v))
      (g := fun v => workerWeight (if v < cfg.nWorkers then ({ s.workers v with inbox := (s.workers v).inbox ++ [.readerError] } : Worker Stats) else s.workers v))
      1 (fun v hv => by simp only [hv, if_true, workerWeight, inboxWeight_append, inboxWeight]; omega)
    unfold measure
    show 5 * (cfg.chunks.length - s.next) + 2 * (cfg.nWorkers - s.pills)
        + (cfg.nWorkers + 1) * (if cfg.readerFault = true ∧ true = false then 1 else 0) + sumW cfg.nWorkers _
        + (if s.outcome = .running then 1 else 0) < _
    rw [hsum]
    simp only [hfl, hrf, and_self, if_true, Bool.true_eq_false, and_false, if_false]
    omega
  | workerStep w =>
    obtain ⟨hw, hcase⟩ := step_workerStep hs
    rcases hcase with ⟨i, rest, hph, hin, rfl⟩ | ⟨rest, hph, hin, rfl⟩ | ⟨rest, hph, hin, rfl⟩ | ⟨i, c, d, st, hph, hin, hp, rfl⟩ | ⟨i, c, e, hph, hin, hp, rfl⟩ <;>
    · refine measure_lt_of hw (fun _ => rfl) rfl ?_
      simp [workerWeight, hph, hin, phaseWeight, inboxWeight, hrun]
      try omega
  | mainRecv w =>
    obtain ⟨hw, hop, hcase⟩ := step_mainRecv hs
    rcases hcase with ⟨i, d, rest, hout, rfl⟩ | ⟨st, rest, hout, rfl⟩ | ⟨rest, hout, rfl⟩
    · refine measure_lt_of hw (fun _ => rfl) rfl ?_
      show _ + workerWeight _ + (if s.outcome = .running then 1 else 0) < _
      simp only [workerWeight, hout, List.length_cons]
      show 5 * (cfg.chunks.length - s.next) + 2 * (cfg.nWorkers - s.pills) + _ + _ < _
      omega
    · refine measure_lt_of hw (fun _ => rfl) rfl ?_
      show _ + workerWeight _ + (if s.outcome = .running then 1 else 0) < _
      simp only [workerWeight, hout, List.length_cons]
      show 5 * (cfg.chunks.length - s.next) + 2 * (cfg.nWorkers - s.pills) + _ + _ < _
      omega
    · refine measure_lt_of hw (fun _ => rfl) rfl ?_
      show _ + workerWeight _ + (if Outcome.failed = .running then 1 else 0) < _
      simp only [workerWeight, hout, List.length_cons, hrun]
      show 5 * (cfg.chunks.length - s.next) + 2 * (cfg.nWorkers - s.pills) + _ + _ < _
      simp
      omega
  | mainFinish =>
    obtain ⟨_, rfl⟩ := step_mainFinish hs
    simp only [measure, hrun]
    simp

end Cutadapt.Runner
