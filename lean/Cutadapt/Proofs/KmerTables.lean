import Cutadapt.Proofs.KmerShiftAnd
import Cutadapt.Proofs.KmerChunks
import Cutadapt.Proofs.KmerLevels
import Cutadapt.Proofs.KmerPigeonhole
import Cutadapt.Proofs.LocateSpec
/-! From the tables of `create_positions_and_kmers` to the verdict of `kmers_present`: the chunks of the whole adapter are
    searched in the whole read, so a full-length alignment within tolerance is never rejected (C07, partial theorem). -/
namespace Cutadapt.Kmer
open Cutadapt Cutadapt.Spec Cutadapt.Align Cutadapt.Adapters Cutadapt.Generated

/-! ### packing -/

theorem flatten_reverse_length (l : List Bytes) : l.reverse.flatten.length = l.flatten.length := by
  induction l with
  | nil => rfl
  | cons a l ih => simp only [List.reverse_cons, List.flatten_append, List.length_append, ih, List.flatten_cons,
      List.flatten_nil, List.append_nil]; omega

theorem packGo_sound (ks : List Bytes) (off : Nat) (cur : List Bytes)
    (hoff : cur.flatten.length = off) (h64 : off ≤ 64) (hk : ∀ k ∈ ks, k.length ≤ 64) :
    ∀ g ∈ packGo ks off cur, g.flatten.length ≤ 64 ∧ ∀ w ∈ g, w ∈ cur ∨ w ∈ ks := by
  induction ks generalizing off cur with
  | nil =>
    intro g hg
    simp only [packGo] at hg
    split at hg
    · simp at hg
    · simp at hg; subst hg
      exact ⟨by rw [flatten_reverse_length]; omega, fun w hw => Or.inl (by simpa using hw)⟩
  | cons k ks ih =>
    intro g hg
    have hkl : k.length ≤ 64 := hk k (by simp)
    have hks : ∀ k' ∈ ks, k'.length ≤ 64 := fun k' h => hk k' (by simp [h])
    simp only [packGo] at hg
    split at hg
    · obtain ⟨h1, h2⟩ := ih (off + k.length) (k :: cur) (by simp only [List.flatten_cons, List.length_append]; omega)
        (by omega) hks g hg
      refine ⟨h1, fun w hw => ?_⟩
      rcases h2 w hw with h | h
      · rcases List.mem_cons.mp h with h | h
        · right; simp [h]
        · left; exact h
      · right; simp [h]
    · rcases List.mem_cons.mp hg with hg | hg
      · subst hg
        exact ⟨by rw [flatten_reverse_length]; omega, fun w hw => Or.inl (by simpa using hw)⟩
      · obtain ⟨h1, h2⟩ := ih k.length [k] (by simp) hkl hks g hg
        refine ⟨h1, fun w hw => ?_⟩
        rcases h2 w hw with h | h
        · right; simp at h; simp [h]
        · right; simp [h]

theorem packGo_complete (ks : List Bytes) (off : Nat) (cur : List Bytes) (w : Bytes) (hw : w ∈ cur ∨ w ∈ ks) :
    ∃ g ∈ packGo ks off cur, w ∈ g := by
  induction ks generalizing off cur with
  | nil =>
    rcases hw with hw | hw
    · refine ⟨cur.reverse, ?_, by simpa using hw⟩
      simp only [packGo]
      have : cur.isEmpty = false := by cases cur <;> simp_all
      simp [this]
    · simp at hw
  | cons k ks ih =>
    simp only [packGo]
    split
    · apply ih
      rcases hw with hw | hw
      · left; simp [hw]
      · rcases List.mem_cons.mp hw with hw | hw
        · left; simp [hw]
        · right; exact hw
    · rcases hw with hw | hw
      · exact ⟨cur.reverse, by simp, by simpa using hw⟩
      · obtain ⟨g, hg, hwg⟩ := ih k.length [k] (by
          rcases List.mem_cons.mp hw with hw | hw
          · left; simp [hw]
          · right; exact hw)
        exact ⟨g, by simp [hg], hwg⟩

/-- what `KmerFinder.__cinit__` guarantees about the mask that holds k-mer `k` of entry `e` -/
theorem mkFinder_mem {entries : List Entry} {ms : List MaskEntry} (h : mkFinder entries = some ms)
    {e : Entry} (he : e ∈ entries) {k : Bytes} (hk : k ∈ e.kmers) :
    ∃ me ∈ ms, me.start = e.start ∧ me.stop = e.stop.getD 0 ∧ k ∈ me.words ∧ me.words.flatten.length ≤ 64 ∧
      ∀ w ∈ me.words, w ∈ e.kmers := by
  simp only [mkFinder] at h
  split at h
  · cases h
  · rename_i hany
    simp only [Option.some.injEq] at h
    subst h
    have hlen : ∀ k' ∈ e.kmers, k'.length ≤ 64 := by
      intro k' hk'
      apply Classical.byContradiction
      intro hcon
      apply hany
      simp only [List.any_eq_true]
      exact ⟨e, he, k', hk', by simp; left; omega⟩
    obtain ⟨g, hg, hkg⟩ := packGo_complete e.kmers 0 [] k (Or.inr hk)
    obtain ⟨h1, h2⟩ := packGo_sound e.kmers 0 [] rfl (by omega) hlen g hg
    refine ⟨⟨e.start, e.stop.getD 0, g⟩, ?_, rfl, rfl, hkg, h1, ?_⟩
    · simp only [List.mem_flatMap, List.mem_map]
      exact ⟨e, he, g, hg, rfl⟩
    · intro w hw
      rcases h2 w hw with h | h
      · simp at h
      · exact h

end Cutadapt.Kmer

namespace Cutadapt.Kmer
open Cutadapt Cutadapt.Spec Cutadapt.Align Cutadapt.Adapters Cutadapt.Generated

/-! ### `remove_redundant_kmers` keeps `(0, None)` searches where they are -/

theorem mapE_ok {f : α → Except ε β} {l : List α} {r : List β} (h : mapE f l = .ok r) :
    (∀ x ∈ l, ∃ y, f x = .ok y ∧ y ∈ r) ∧ (∀ y ∈ r, ∃ x ∈ l, f x = .ok y) := by
  induction l generalizing r with
  | nil => simp [mapE] at h; subst h; simp
  | cons x xs ih =>
    simp only [mapE] at h
    split at h
    · cases h
    · rename_i y hy
      split at h
      · cases h
      · rename_i ys hys
        cases h
        obtain ⟨ih1, ih2⟩ := ih hys
        constructor
        · intro x' hx'
          rcases List.mem_cons.mp hx' with hx' | hx'
          · subst hx'; exact ⟨y, hy, by simp⟩
          · obtain ⟨y', h1, h2⟩ := ih1 x' hx'
            exact ⟨y', h1, by simp [h2]⟩
        · intro y' hy'
          rcases List.mem_cons.mp hy' with hy' | hy'
          · subst hy'; exact ⟨x, by simp, hy⟩
          · obtain ⟨x', h1, h2⟩ := ih2 y' hy'
            exact ⟨x', by simp [h1], h2⟩

theorem posLt_tri (p q : Pos) (h1 : posLt p q = false) (h2 : posLt q p = false) : p = q := by
  obtain ⟨a, b⟩ := p
  obtain ⟨c, d⟩ := q
  simp only [posLt, Bool.or_eq_false_iff, decide_eq_false_iff_not, Bool.and_eq_false_imp, beq_iff_eq] at h1 h2
  have hac : a = c := by omega
  subst hac
  have h1' := h1.2 rfl
  have h2' := h2.2 rfl
  cases b <;> cases d <;> simp at h1' h2' ⊢
  omega

theorem minInt_mem (l : List Int) (d : Int) : minInt l d = d ∨ minInt l d ∈ l := by
  induction l generalizing d with
  | nil => left; rfl
  | cons a l ih =>
    simp only [minInt, List.foldl_cons] at ih ⊢
    rcases ih (min d a) with h | h
    · rw [h]
      rcases Int.min_def d a ▸ (by split <;> simp : (if d ≤ a then d else a) = d ∨ (if d ≤ a then d else a) = a) with h' | h'
      · left; exact h'
      · right; simp [h']
    · right; simp [h]

theorem minimizeOne_zero_none {positions : List Pos} (h : ((0 : Int), (none : Option Int)) ∈ positions) :
    minimizeOne positions = .ok [(0, none)] := by
  unfold minimizeOne
  split
  · rename_i p
    simp at h; rw [h]
  · simp [h]

theorem minimizeOne_zero_none_inv {positions ps : List Pos} (h : minimizeOne positions = .ok ps)
    (hm : ((0 : Int), (none : Option Int)) ∈ ps) : ((0 : Int), (none : Option Int)) ∈ positions := by
  unfold minimizeOne at h
  split at h
  · cases h; simpa using hm
  · by_cases hc : positions.contains ((0 : Int), (none : Option Int)) = true
    · simpa using hc
    · simp only [hc] at h
      simp only [Bool.false_eq_true, ↓reduceIte] at h
      split at h
      · cases h
      · cases h
        rcases List.mem_append.mp hm with hm | hm
        · split at hm
          · simp at hm
          · simp at hm
        · split at hm
          · simp at hm
          · rename_i s ss hb
            simp only [List.mem_cons, Prod.mk.injEq, List.not_mem_nil, or_false] at hm
            have h0 : minInt ss s = 0 := hm.1.symm ▸ rfl
            have hmem : (0 : Int) ∈ s :: ss := by
              rcases minInt_mem ss s with h' | h'
              · rw [h0] at h'; simp [← h']
              · rw [h0] at h'; simp [h']
            rw [← hb] at hmem
            simp only [List.mem_map, List.mem_filter] at hmem
            obtain ⟨⟨a, b⟩, ⟨hp, hn⟩, ha⟩ := hmem
            simp at ha hn
            subst ha; subst hn
            exact hp

theorem minimize_zero_none {l r : List (Bytes × Pos)} (h : minimizeKmerSearchList l = .ok r) (k : Bytes) :
    (k, ((0 : Int), (none : Option Int))) ∈ r ↔ (k, ((0 : Int), (none : Option Int))) ∈ l := by
  unfold minimizeKmerSearchList at h
  split at h
  · cases h
  · rename_i ls hls
    cases h
    obtain ⟨h1, h2⟩ := mapE_ok hls
    constructor
    · intro hm
      obtain ⟨y, hy, hky⟩ := List.mem_flatten.mp hm
      obtain ⟨k', _, hk'⟩ := h2 y hy
      unfold minimizeFor at hk'
      split at hk'
      · cases hk'
      · rename_i ps hps
        cases hk'
        simp only [List.mem_map, Prod.mk.injEq] at hky
        obtain ⟨p, hp, hkk, hpp⟩ := hky
        subst hkk; subst hpp
        have := minimizeOne_zero_none_inv hps hp
        simp only [List.mem_map, List.mem_filter, beq_iff_eq] at this
        obtain ⟨⟨k0, p0⟩, ⟨hin, hk0⟩, hp0⟩ := this
        simp at hk0 hp0
        subst hk0; subst hp0
        exact hin
    · intro hm
      have hk : k ∈ sortUniq bytesLt (l.map (·.1)) :=
        (mem_sortUniq bytesLt_tri).mpr (List.mem_map.mpr ⟨_, hm, rfl⟩)
      obtain ⟨y, hy, hyl⟩ := h1 k hk
      have hpos : ((0 : Int), (none : Option Int)) ∈ (l.filter (·.1 == k)).map (·.2) := by
        simp only [List.mem_map, List.mem_filter, beq_iff_eq]
        exact ⟨(k, (0, none)), ⟨hm, rfl⟩, rfl⟩
      unfold minimizeFor at hy
      rw [minimizeOne_zero_none hpos] at hy
      cases hy
      exact List.mem_flatten.mpr ⟨_, hyl, by simp⟩

theorem removeRedundant_zero_none {sets : List SearchSet} {entries : List Entry}
    (h : removeRedundantKmers sets = .ok entries) (k : Bytes) :
    (∃ e ∈ entries, e.start = 0 ∧ e.stop = none ∧ k ∈ e.kmers) ↔
    (∃ s ∈ sets, s.start = 0 ∧ s.stop = none ∧ k ∈ s.kmers) := by
  dsimp only [removeRedundantKmers] at h
  split at h
  · cases h
  · rename_i minimized hmin
    cases h
    have hiff := minimize_zero_none hmin k
    have htr : (k, ((0 : Int), (none : Option Int))) ∈
        sets.flatMap (fun s => s.kmers.map (fun k => (k, (s.start, s.stop)))) ↔
        ∃ s ∈ sets, s.start = 0 ∧ s.stop = none ∧ k ∈ s.kmers := by
      simp only [List.mem_flatMap, List.mem_map, Prod.mk.injEq]
      constructor
      · rintro ⟨s, hs, k', hk', h1, h2, h3⟩
        subst h1; exact ⟨s, hs, h2, h3, hk'⟩
      · rintro ⟨s, hs, h2, h3, hk'⟩
        exact ⟨s, hs, k, hk', rfl, h2, h3⟩
    rw [← htr, ← hiff]
    simp only [List.mem_map]
    constructor
    · rintro ⟨e, ⟨key, _, hkey⟩, hs, hst, hk⟩
      subst hkey
      simp only at hs hst hk
      obtain ⟨a, b⟩ := key
      simp only at hs hst; subst hs; subst hst
      simp only [List.mem_map, List.mem_filter, beq_iff_eq] at hk
      obtain ⟨⟨k0, p0⟩, ⟨hin, hp0⟩, hk0⟩ := hk
      simp at hp0 hk0; subst hk0; subst hp0; exact hin
    · intro hm
      have hkey : ((0 : Int), (none : Option Int)) ∈ sortUniq posLt (minimized.map (·.2)) :=
        (mem_sortUniq posLt_tri).mpr (List.mem_map.mpr ⟨_, hm, rfl⟩)
      refine ⟨_, ⟨(0, none), hkey, rfl⟩, rfl, rfl, ?_⟩
      simp only [List.mem_map, List.mem_filter, beq_iff_eq]
      exact ⟨(k, (0, none)), ⟨hm, rfl⟩, rfl⟩

end Cutadapt.Kmer

namespace Cutadapt.Kmer
open Cutadapt Cutadapt.Spec Cutadapt.Align Cutadapt.Adapters Cutadapt.Generated

/-! ### only the internal search set is searched in the whole read -/

theorem foldl_inv {P : β → Prop} (f : β → α → β) (l : List α) (b : β) (hb : P b)
    (hstep : ∀ b a, P b → P (f b a)) : P (l.foldl f b) := by
  induction l generalizing b with
  | nil => exact hb
  | cons a l ih => exact ih (f b a) (hstep b a hb)

theorem searchSets_zero_none (adapter : Bytes) (mo : Nat) (thr : Nat → Nat) (b f ind : Bool) (hmo : 1 ≤ mo)
    (s : SearchSet) (hs : s ∈ searchSets adapter mo thr b f true ind) (h0 : s.start = 0) (hn : s.stop = none) :
    s.kmers = kmerChunks adapter (thr adapter.length + 1) := by
  simp only [searchSets, List.mem_append] at hs
  rcases hs with (hs | hs) | hs
  · split at hs
    · have := backSets_start_neg adapter mo thr ind hmo s hs; omega
    · simp at hs
  · split at hs
    · simp only [List.mem_map] at hs
      obtain ⟨s', _, rfl⟩ := hs
      simp at hn
    · simp at hs
  · simp at hs; subst hs; rfl

/-- the entry `(0, None, …)` of `create_positions_and_kmers(…, internal=True)` holds exactly the chunks of the whole adapter -/
theorem entry_zero_none_iff {adapter : Bytes} {mo : Nat} {thr : Nat → Nat} {b f ind : Bool} {entries : List Entry}
    (h : createPositionsAndKmers adapter mo thr b f true ind = .ok entries) (hmo : 1 ≤ mo) (k : Bytes) :
    (∃ e ∈ entries, e.start = 0 ∧ e.stop = none ∧ k ∈ e.kmers) ↔ k ∈ kmerChunksList adapter (thr adapter.length + 1) := by
  rw [removeRedundant_zero_none h k, ← mem_kmerChunks]
  constructor
  · rintro ⟨s, hs, h0, hn, hk⟩
    rw [← searchSets_zero_none adapter mo thr b f ind hmo s hs h0 hn]; exact hk
  · intro hk
    exact ⟨⟨0, none, kmerChunks adapter (thr adapter.length + 1)⟩, by simp [searchSets], rfl, rfl, hk⟩

end Cutadapt.Kmer

namespace Cutadapt.Kmer
open Cutadapt Cutadapt.Spec Cutadapt.Align Cutadapt.Adapters Cutadapt.Generated

/-! ### the whole-read window -/

theorem windowOf_whole (n : Nat) (hn : 0 < n) : windowOf 0 0 n = some (0, n) := by
  have h1 : ¬ ((n : Int) < 0) := by omega
  simp [windowOf, h1]
  omega

theorem haystack_whole (read beyond : Bytes) : haystack (read ++ beyond) 0 read.length = read := by
  simp [haystack]

theorem maskFrom_none (m : UInt8 → UInt8 → Bool) (cat : Bytes) (pos : Nat) (c : UInt8) (h : ∀ a, m a c = false) :
    maskFrom m cat pos c = 0 := by
  induction cat generalizing pos with
  | nil => rfl
  | cons a cat ih => simp [maskFrom, h a, ih]

theorem entryMask_eq (wr wq : Bool) (e : MaskEntry) :
    entryMask wr wq e = maskFrom (kmerMatches wr wq) e.needle 0 := by
  funext c
  simp only [entryMask]
  split
  · rfl
  · rename_i hc
    rw [maskFrom_none]
    intro a
    have : decide (c < 128) = false := by simpa using hc
    simp [kmerMatches, this]

theorem entryPresent_of_occurs (wr wq : Bool) (me : MaskEntry) (hs : me.start = 0) (hst : me.stop = 0)
    (hne : ∀ w ∈ me.words, w ≠ []) (hlen : me.words.flatten.length ≤ 64) (read beyond : Bytes)
    (k : Bytes) (hk : k ∈ me.words) (i : Nat) (hocc : OccursAt (kmerMatches wr wq) k read i) :
    entryPresent wr wq me read beyond = true := by
  have hkl : 0 < k.length := List.length_pos_iff.mpr (hne k hk)
  have hn : 0 < read.length := by have := hocc.1; omega
  simp only [entryPresent, hs, hst, windowOf_whole _ hn, haystack_whole, entryMask_eq, MaskEntry.needle,
    MaskEntry.initMask, MaskEntry.foundMask]
  exact (shiftAnd_correct (kmerMatches wr wq) me.words hne hlen read).mpr ⟨k, hk, i, hocc⟩

/-- if a chunk of the whole adapter occurs in the sequence handed to `kmers_present`, the finder says yes -/
theorem kmersPresent_of_chunk {adapter : Bytes} {mo : Nat} {thr : Nat → Nat} {b f ind : Bool} {entries : List Entry}
    (h : createPositionsAndKmers adapter mo thr b f true ind = .ok entries) (hmo : 1 ≤ mo)
    (hthr : thr adapter.length + 1 ≤ adapter.length)
    {ms : List MaskEntry} (hms : mkFinder entries = some ms) (wr wq : Bool) (read beyond : Bytes)
    (k : Bytes) (hk : k ∈ kmerChunksList adapter (thr adapter.length + 1)) (i : Nat)
    (hocc : OccursAt (kmerMatches wr wq) k read i) :
    kmersPresent (.masks wr wq ms) read beyond = true := by
  obtain ⟨e, he, h0, hn, hke⟩ := (entry_zero_none_iff h hmo k).mpr hk
  obtain ⟨me, hme, hs, hst, hkw, hlen, hsub⟩ := mkFinder_mem hms he hke
  have hne : ∀ w ∈ me.words, w ≠ [] := by
    intro w hw
    have : w ∈ kmerChunksList adapter (thr adapter.length + 1) :=
      (entry_zero_none_iff h hmo w).mp ⟨e, he, h0, hn, hsub w hw⟩
    exact (kmerChunksList_spec adapter _ (by omega) hthr).2.2.2 w this
  simp only [kmersPresent, List.any_eq_true]
  exact ⟨me, hme, entryPresent_of_occurs wr wq me (by rw [hs, h0]) (by rw [hst, hn]; rfl) hne hlen read beyond k hkw i hocc⟩

end Cutadapt.Kmer

namespace Cutadapt.Kmer
open Cutadapt Cutadapt.Spec Cutadapt.Align Cutadapt.Adapters Cutadapt.Generated

/-! ### the aligner's character relation implies the finder's -/

theorem upper_fold_nat : ∀ n, n < 128 →
    (tr upperTable (asciiUpper n.toUInt8) = tr upperTable n.toUInt8 ∧
     tr acgtTable (asciiUpper n.toUInt8) = tr acgtTable n.toUInt8 ∧
     tr iupacTable (asciiUpper n.toUInt8) = tr iupacTable n.toUInt8 ∧
     (asciiUpper n.toUInt8 = 0 ↔ n.toUInt8 = 0) ∧ asciiUpper n.toUInt8 < 128) := by
  decide +kernel

/-- the three tables are case-insensitive on ASCII -/
theorem upper_fold (c : UInt8) (hc : c < 128) :
    tr upperTable (asciiUpper c) = tr upperTable c ∧ tr acgtTable (asciiUpper c) = tr acgtTable c ∧
    tr iupacTable (asciiUpper c) = tr iupacTable c ∧ (asciiUpper c = 0 ↔ c = 0) ∧ asciiUpper c < 128 := by
  have := upper_fold_nat c.toNat (by simpa [UInt8.lt_iff_toNat_lt] using hc)
  simpa using this

def encR (cfg : Cfg) (a : UInt8) : UInt8 :=
  if cfg.wildRef then tr iupacTable a else if cfg.wildQuery then tr acgtTable a else a
def encQ (cfg : Cfg) (c : UInt8) : UInt8 :=
  if cfg.wildQuery then tr iupacTable c else if cfg.wildRef then tr acgtTable c else tr upperTable c

theorem encodeRef_eq (cfg : Cfg) (s : Bytes) : encodeRef cfg s = s.map (encR cfg) := by
  unfold encodeRef encR
  split
  · rfl
  · split
    · rfl
    · simp

theorem encodeQuery_eq (cfg : Cfg) (s : Bytes) : encodeQuery cfg s = s.map (encQ cfg) := by
  unfold encodeQuery encQ
  split
  · rfl
  · split <;> rfl

theorem rel_transfer (cfg : Cfg) (a c : UInt8) (ha0 : a ≠ 0) (hau : tr upperTable a = a) (hc0 : c ≠ 0) (hc : c < 128)
    (h : cfg.eq (encR cfg a) (encQ cfg c) = true) : kmerMatches cfg.wildRef cfg.wildQuery a c = true := by
  unfold Cfg.eq compareAscii charsEqual encR encQ at h
  unfold kmerMatches refTable queryTable
  have hc' : decide (c < 128) = true := by simpa using hc
  cases hr : cfg.wildRef <;> cases hq : cfg.wildQuery <;> simp [hr, hq, ha0, hc0, hc'] at h ⊢
  · rw [hau]; exact h
  · exact h
  · exact h
  · exact h

/-- same with the read upper-cased first (`AnywhereAdapter.match_to` aligns `sequence.upper()`) -/
theorem rel_transfer_upper (cfg : Cfg) (a c : UInt8) (ha0 : a ≠ 0) (hau : tr upperTable a = a) (hc0 : c ≠ 0)
    (hc : c < 128) (h : cfg.eq (encR cfg a) (encQ cfg (asciiUpper c)) = true) :
    kmerMatches cfg.wildRef cfg.wildQuery a c = true := by
  obtain ⟨h1, h2, h3, h4, h5⟩ := upper_fold c hc
  have : encQ cfg (asciiUpper c) = encQ cfg c := by
    unfold encQ; rw [h1, h2, h3]
  rw [this] at h
  exact rel_transfer cfg a c ha0 hau hc0 hc h

end Cutadapt.Kmer

namespace Cutadapt.Kmer
open Cutadapt Cutadapt.Spec Cutadapt.Align Cutadapt.Adapters Cutadapt.Generated

/-- the statement of the aligner's soundness theorem (C01), taken as a hypothesis here so that the two compose -/
def LocateSound (cfg : Cfg) (m : Nat) : Prop :=
  ∀ ref query as ae rs re sc e, ref.length = m → locate cfg ref query = some (as, ae, rs, re, sc, e) →
    SoundResult cfg ref query as ae rs re e

theorem seg_getElem? {xs : List α} {a b i : Nat} {c : α} (h : (seg xs a b)[i]? = some c) : xs[a + i]? = some c := by
  unfold seg at h
  rw [List.getElem?_drop, List.getElem?_take] at h
  split at h
  · exact h
  · cases h

theorem effLen_le (cfg : Cfg) (ref : Bytes) (m : Nat) : effLen cfg ref m 0 m (m - 0) ≤ m := by
  unfold effLen
  split
  · split <;> omega
  · omega

/-- a full-length alignment within tolerance leaves one chunk of the adapter intact in the read -/
theorem chunk_occurs_of_full_match (cfg : Cfg) (ref fin : Bytes) (g : UInt8 → UInt8) (hg : g = id ∨ g = asciiUpper)
    (href : ∀ a ∈ ref, a ≠ 0 ∧ tr upperTable a = a) (hfin : ∀ c ∈ fin, c ≠ 0 ∧ c < 128)
    (hic : 1 ≤ cfg.indelCost) (hmono : ∀ x y, x ≤ y → cfg.thr x ≤ cfg.thr y)
    (hthr : cfg.thr ref.length + 1 ≤ ref.length)
    (rs re e : Nat) (hs : SoundResult cfg ref (fin.map g) 0 ref.length rs re e) :
    ∃ k ∈ kmerChunksList ref (cfg.thr ref.length + 1), ∃ i,
      OccursAt (kmerMatches cfg.wildRef cfg.wildQuery) k fin i := by
  obtain ⟨s, hl, hr, hcost⟩ := hs.script
  have he : e ≤ cfg.thr ref.length := Nat.le_trans hs.tolerance (hmono _ _ (effLen_le cfg ref ref.length))
  rw [encodeRef_eq] at hl
  have hl' : lhs s = ref.map (encR cfg) := by
    rw [hl]; have := seg_zero_length (ref.map (encR cfg)); simpa using this
  rw [encodeQuery_eq] at hr
  obtain ⟨hflat, hcount, _, _⟩ := kmerChunksList_spec ref (cfg.thr ref.length + 1) (by omega) hthr
  obtain ⟨j, ch, o', hj, hocc, _, _⟩ := pigeonhole_script cfg.eq cfg.indelCost hic s (cfg.thr ref.length)
    (by omega) ((kmerChunksList ref (cfg.thr ref.length + 1)).map (List.map (encR cfg)))
    (by rw [← List.map_flatten, hflat, hl']) (by simpa using hcount)
  rw [List.getElem?_map, Option.map_eq_some_iff] at hj
  obtain ⟨k, hk, hch⟩ := hj
  subst hch
  refine ⟨k, List.mem_of_getElem? hk, rs + o', ?_, ?_⟩
  · have h1 := hocc.1
    rw [hr, seg_length] at h1
    simp only [List.length_map] at h1
    have h2 := hs.h_rs
    have h3 := hs.h_re
    simp only [List.length_map] at h3
    omega
  · intro i hi
    obtain ⟨a, c, ha, hc, hac⟩ := hocc.2 i (by simpa using hi)
    rw [List.getElem?_map, Option.map_eq_some_iff] at ha
    obtain ⟨a0, ha0, rfl⟩ := ha
    rw [hr] at hc
    have hc' := seg_getElem? hc
    rw [List.getElem?_map, Option.map_eq_some_iff] at hc'
    obtain ⟨c0, hc0, rfl⟩ := hc'
    rw [List.getElem?_map, Option.map_eq_some_iff] at hc0
    obtain ⟨c1, hc1, rfl⟩ := hc0
    have hk_mem : k ∈ kmerChunksList ref (cfg.thr ref.length + 1) := List.mem_of_getElem? hk
    have ha_ref : a0 ∈ ref := by
      rw [← hflat]; exact List.mem_flatten.mpr ⟨k, hk_mem, List.mem_of_getElem? ha0⟩
    obtain ⟨hr0, hru⟩ := href a0 ha_ref
    obtain ⟨hf0, hf1⟩ := hfin c1 (List.mem_of_getElem? hc1)
    refine ⟨a0, c1, ha0, by rw [Nat.add_assoc]; exact hc1, ?_⟩
    rcases hg with hg | hg
    · subst hg; exact rel_transfer cfg a0 c1 hr0 hru hf0 hf1 hac
    · subst hg; exact rel_transfer_upper cfg a0 c1 hr0 hru hf0 hf1 hac

end Cutadapt.Kmer

namespace Cutadapt.Kmer
open Cutadapt Cutadapt.Spec Cutadapt.Align Cutadapt.Adapters Cutadapt.Generated

/-! ### assembling: full-length matches of adapters with an internal search set survive the prefilter -/

/-- side conditions on the adapter (all decidable for a concrete adapter except monotonicity of `thr`, which holds for
    `thr L = ⌊fl(L · rate)⌋`): characters are non-NUL and upper-case, `⌊rate·m⌋ < m` (implied by rate < 1), overlap ≥ 1 -/
structure PartialSide (a : Adapter) : Prop where
  seq_ok : ∀ c ∈ a.seq, c ≠ 0 ∧ tr upperTable c = c
  thr_mono : ∀ x y, x ≤ y → a.thr x ≤ a.thr y
  thr_lt : a.thr a.seq.length + 1 ≤ a.seq.length
  overlap_pos : 1 ≤ a.minOverlap

theorem makeKmerFinder_full (a : Adapter) (hside : PartialSide a) (s fin : Bytes) (g : UInt8 → UInt8)
    (hg : g = id ∨ g = asciiUpper) (b f : Bool) (flags : Nat)
    (hs_ok : ∀ c ∈ s, c ≠ 0 ∧ tr upperTable c = c) (hs_len : s.length = a.seq.length)
    (hfin : ∀ c ∈ fin, c ≠ 0 ∧ c < 128) (beyond : Bytes)
    (rs re e : Nat) (hres : SoundResult (alignerCfg a flags) s (fin.map g) 0 s.length rs re e) :
    kmersPresent (makeKmerFinder a s b f true) fin beyond = true := by
  unfold makeKmerFinder
  split
  · rfl
  · rename_i entries hentries
    split
    · rfl
    · rename_i ms hms
      have hthr : (alignerCfg a flags).thr s.length + 1 ≤ s.length := by
        have := hside.thr_lt; rw [hs_len]; exact this
      have hic : 1 ≤ (alignerCfg a flags).indelCost := by
        simp only [alignerCfg, mkCfg, indelCost]
        split <;> decide
      obtain ⟨k, hk, i, hocc⟩ := chunk_occurs_of_full_match (alignerCfg a flags) s fin g hg hs_ok hfin hic
        hside.thr_mono hthr rs re e hres
      exact kmersPresent_of_chunk hentries hside.overlap_pos (by rw [hs_len]; exact hside.thr_lt) hms
        a.adapterWildcards a.readWildcards fin beyond k hk i hocc

def hasInternal : AdapterType → Bool
  | .front | .rightmostFront | .back | .anywhere => true
  | _ => false

theorem prefilter_keeps_full_matches (a : Adapter) (hty : hasInternal a.ty = true) (hside : PartialSide a)
    (hsound : LocateSound (alignerCfg a (flagsOf a)) a.seq.length) (read beyond : Bytes)
    (hread : ∀ c ∈ read, c ≠ 0 ∧ c < 128)
    (mt : SingleMatch) (hm : matchTo a read = some mt) (h0 : mt.astart = 0) (h1 : mt.astop = a.seq.length) :
    kmersPresent (finderFor a) (finderInput a read) beyond = true := by
  have hmpos : 1 ≤ a.seq.length := by have := hside.thr_lt; omega
  unfold matchTo at hm
  split at hm
  · cases hm
  · rename_i as ae rs re score errors hal
    cases hm
    simp only at h0 h1
    subst h0
    cases hty' : a.ty <;> rw [hty'] at hty <;> simp only [hasInternal] at hty <;> try (cases hty)
    · -- front
      simp only [alignment, hty'] at hal
      have hres := hsound _ _ _ _ _ _ _ _ rfl hal
      rw [h1] at hres
      simp only [finderFor, finderArgs, finderInput, hty']
      refine makeKmerFinder_full a hside a.seq read id (Or.inl rfl) _ _ (flagsOf a) hside.seq_ok rfl hread beyond rs re errors ?_
      simpa using hres
    · -- rightmost front
      simp only [alignment, hty'] at hal
      split at hal
      · cases hal
      · rename_i rs' re' qs qe sc er hloc
        simp only [Option.some.injEq, Prod.mk.injEq] at hal
        obtain ⟨ha0, ha1, _, _, _, _⟩ := hal
        have hres := hsound _ _ _ _ _ _ _ _ (by simp) hloc
        have hb1 := hres.h_as
        have hb2 := hres.h_ae
        simp only [List.length_reverse] at hb2
        have e1 : re' = a.seq.reverse.length := by simp only [List.length_reverse]; omega
        have e2 : rs' = 0 := by omega
        subst e2
        rw [e1] at hres
        simp only [finderFor, finderArgs, finderInput, hty']
        refine makeKmerFinder_full a hside a.seq.reverse read.reverse id (Or.inl rfl) _ _ (flagsOf a) ?_ (by simp) ?_ beyond qs qe er ?_
        · intro c hc; exact hside.seq_ok c (List.mem_reverse.mp hc)
        · intro c hc; exact hread c (List.mem_reverse.mp hc)
        · simpa using hres
    · -- back
      simp only [alignment, hty'] at hal
      have hres := hsound _ _ _ _ _ _ _ _ rfl hal
      rw [h1] at hres
      simp only [finderFor, finderArgs, finderInput, hty']
      refine makeKmerFinder_full a hside a.seq read id (Or.inl rfl) _ _ (flagsOf a) hside.seq_ok rfl hread beyond rs re errors ?_
      simpa using hres
    · -- anywhere
      simp only [alignment, hty'] at hal
      have hres := hsound _ _ _ _ _ _ _ _ rfl hal
      rw [h1] at hres
      simp only [finderFor, finderArgs, finderInput, hty']
      exact makeKmerFinder_full a hside a.seq read asciiUpper (Or.inr rfl) _ _ (flagsOf a) hside.seq_ok rfl hread beyond rs re errors hres

end Cutadapt.Kmer
