import Cutadapt.Proofs.ParserSpec
import Cutadapt.Proofs.ParserDict
/-! From the parsed part to the documented meaning (C18): `aspecCore`, `construct`, `makeNotLinked`, `makeLinked`. -/
namespace Cutadapt.ParserProofs
open Cutadapt.Parser Cutadapt.Notation

/-! ## classes -/

def restrictionOf (r : Restr) : Option Restriction := if (Restr.front r).isSome then Restr.front r else Restr.back r

theorem classOf_none {t : AType} {r : Restr} {rm : Bool} (h : classOf t r rm = none) :
    (t = .front ∧ (Restr.back r).isSome = true) ∨ (t = .back ∧ (Restr.front r).isSome = true) ∨
    (t = .anywhere ∧ (restrictionOf r).isSome = true) ∨ (rm = true ∧ (t ≠ .front ∨ (restrictionOf r).isSome = true)) := by
  cases t <;> cases r <;> cases rm <;> simp [classOf] at h <;> simp [Restr.front, Restr.back, restrictionOf]

theorem classOf_some {t : AType} {r : Restr} {rm : Bool} {cls : Cls} (h : classOf t r rm = some cls) :
    ¬ (t = .front ∧ (Restr.back r).isSome = true) ∧ ¬ (t = .back ∧ (Restr.front r).isSome = true) ∧
    ¬ (t = .anywhere ∧ (restrictionOf r).isSome = true) ∧ ¬ (rm = true ∧ (t ≠ .front ∨ (restrictionOf r).isSome = true)) ∧
    cls = clsOf t (restrictionOf r) rm ∧ ((cls = .prefix ∨ cls = .suffix) ↔ r.anchored = true) ∧
    (restrictionOf r = some .anchored ↔ r.anchored = true) ∧ ((restrictionOf r).isSome = r.restricted) := by
  cases t <;> cases r <;> cases rm <;> simp [classOf] at h <;> subst h <;>
    simp [Restr.front, Restr.back, restrictionOf, clsOf, Restr.anchored, Restr.restricted]

/-! ## `aspecCore` on a rendered part -/

/-- the `min_overlap` clamp of `AdapterSpecification.parse` -/
def clampV (len : Nat) (v : Value) : Value := if v.gtNat len then .int len else v

/-- lookups in `AdapterSpecification.parameters` in terms of the written dict `d` -/
def aGet (d : Params) (len : Nat) (k : Key) : Option Value :=
  match k with
  | .rightmost => none
  | .minOverlap => (postGet d .minOverlap).map (clampV len)
  | k => postGet d k

theorem not_allX {p : Part} (hp : p.WF) : (p.restr.pre ++ expandRuns p.runs ++ p.restr.suf).all (· = 'X') = false := by
  obtain ⟨c, tl, hsq, hx⟩ := edge_head hp.2.2.2
  cases h : (p.restr.pre ++ expandRuns p.runs ++ p.restr.suf).all (· = 'X') with
  | false => rfl
  | true =>
    exfalso
    rw [List.all_eq_true] at h
    have := h c (by simp [hsq])
    simp only [decide_eq_true_eq] at this
    subst this
    revert hx; decide

theorem seq_no_anchor {p : Part} (hp : p.WF) : ∀ c ∈ expandRuns p.runs, c ≠ '^' ∧ c ≠ '$' := by
  intro c hc
  have h := expand_seqChars hp c hc
  have hb : (c != '^' && c != '$') = true := all_mem (l := seqChars) (P := fun c => c != '^' && c != '$') (by decide) h
  simpa using hb

/-- what `paramSem` reads off the written dict agrees with the lookups after `postParams` -/
theorem sem_fields (ps : List Param) :
    (paramSem ps).e = postGet (paramDict ps) .maxErrors ∧ (paramSem ps).o = postGet (paramDict ps) .minOverlap ∧
    (paramSem ps).indels = postGet (paramDict ps) .indels ∧ (paramSem ps).required = postGet (paramDict ps) .required ∧
    (paramSem ps).anywhere = (paramDict ps).flag .anywhere ∧
    (paramSem ps).rightmost = (paramDict ps).flag .rightmost := by
  simp [paramSem, postGet]

theorem consistent_iff (ps : List Param) :
    paramsConsistent ps = true ↔ (ps.map (fun q => q.name.key)).Nodup ∧
      ¬ ((paramDict ps).has .optional = true ∧ (paramDict ps).has .required = true) ∧
      ¬ ((paramDict ps).has .indels = true ∧ (paramDict ps).has .noindels = true) := by
  simp only [paramsConsistent, Bool.and_eq_true, decide_eq_true_eq, Bool.not_eq_true', Bool.and_eq_false_iff, and_assoc]
  cases (paramDict ps).has .optional <;> cases (paramDict ps).has .required <;> cases (paramDict ps).has .indels <;>
    cases (paramDict ps).has .noindels <;> simp

/-- **Failure cases of `AdapterSpecification.parse`** on a rendered part: inconsistent parameters, a restriction (or
    `rightmost`) that the adapter type does not allow, `min_overlap` on an anchored adapter. -/
theorem parseASpec_err {p : Part} (hp : p.WF) (t : AType)
    (h : paramsConsistent p.params = false ∨ classOf t p.restr (paramSem p.params).rightmost = none ∨
         ((paramSem p.params).o.isSome = true ∧ p.restr.anchored = true)) :
    ∃ e, parseASpec p.render t = .error e ∧ e.isCmdline = true := by
  rw [parseASpec_render hp]
  by_cases hc : paramsConsistent p.params = true
  · rcases h with h | h
    · rw [hc] at h; exact Bool.noConfusion h
    rw [consistent_iff] at hc
    obtain ⟨hnd, h1, h2⟩ := hc
    obtain ⟨P, hP, hget⟩ := postParams_ok _ h1 h2
    simp only [hnd, if_true, hP]
    obtain ⟨hse, hso, hsi, hsr, hsa, hsrm⟩ := sem_fields p.params
    unfold aspecCore
    simp only [not_allX hp, Bool.false_eq_true, if_false, parseRestrictions_render p.restr hp.2.2.2 (seq_no_anchor hp)]
    have hrm : P.flag .rightmost = (paramSem p.params).rightmost := by
      rw [hsrm]; simp [Params.flag, hget, postGet]
    have hhas : Params.has (P.erase .rightmost) .minOverlap = (paramSem p.params).o.isSome := by
      simp [Params.has, Params.get_erase, hget, hso]
    rw [hrm, hhas]
    by_cases c1 : t = .front ∧ (Restr.back p.restr).isSome = true
    · exact ⟨.front5, by simp [c1], rfl⟩
    by_cases c2 : t = .back ∧ (Restr.front p.restr).isSome = true
    · exact ⟨.back3, by simp [c1, c2], rfl⟩
    have hro : (if (Restr.front p.restr).isSome = true then Restr.front p.restr else Restr.back p.restr) = restrictionOf p.restr := rfl
    simp only [c1, c2, if_false, hro]
    by_cases c3 : t = .anywhere ∧ (restrictionOf p.restr).isSome = true
    · exact ⟨.anywhereRestriction, by simp [c3], rfl⟩
    simp only [c3, if_false]
    by_cases c4 : (paramSem p.params).o.isSome = true ∧ restrictionOf p.restr = some .anchored
    · exact ⟨.anchoredMinOverlap, by simp [c4], rfl⟩
    simp only [c4, if_false]
    by_cases c5 : (paramSem p.params).rightmost = true ∧ (t ≠ .front ∨ (restrictionOf p.restr).isSome = true)
    · exact ⟨.rightmost, by simp only [c5]; simp, rfl⟩
    exfalso
    rcases h with h | h
    · rcases classOf_none h with h | h | h | h
      · exact c1 h
      · exact c2 h
      · exact c3 h
      · exact c5 h
    · apply c4
      refine ⟨h.1, ?_⟩
      cases hr : p.restr <;> simp [hr, Restr.anchored] at h <;> simp [restrictionOf, Restr.front, Restr.back]

  · -- inconsistent parameters
    have hc' := hc
    rw [consistent_iff] at hc'
    by_cases hnd : (p.params.map (fun q => q.name.key)).Nodup
    · simp only [hnd, if_true]
      have : ((paramDict p.params).has .optional = true ∧ (paramDict p.params).has .required = true) ∨
          ((paramDict p.params).has .indels = true ∧ (paramDict p.params).has .noindels = true) := by
        by_cases h1 : ((paramDict p.params).has .optional = true ∧ (paramDict p.params).has .required = true)
        · exact Or.inl h1
        · by_cases h2 : ((paramDict p.params).has .indels = true ∧ (paramDict p.params).has .noindels = true)
          · exact Or.inr h2
          · exact absurd ⟨hnd, h1, h2⟩ hc'
      obtain ⟨e, he, hk⟩ := postParams_err _ this
      exact ⟨e, by rw [he], hk⟩
    · exact ⟨.duplicateKey, by simp [hnd], rfl⟩

/-- **Success case of `AdapterSpecification.parse`** on a rendered part. -/
theorem parseASpec_ok {p : Part} (hp : p.WF) (t : AType) {cls : Cls} (hc : paramsConsistent p.params = true)
    (hcls : classOf t p.restr (paramSem p.params).rightmost = some cls)
    (ho : ¬ ((paramSem p.params).o.isSome = true ∧ p.restr.anchored = true)) :
    ∃ A, parseASpec p.render t = .ok A ∧ A.name = p.name ∧ A.restriction = restrictionOf p.restr ∧
      A.sequence = expandRuns p.runs ∧ A.atype = t ∧ A.rightmost = (paramSem p.params).rightmost ∧
      ∀ k, Params.get A.parameters k = aGet (paramDict p.params) (expandRuns p.runs).length k := by
  rw [parseASpec_render hp]
  rw [consistent_iff] at hc
  obtain ⟨hnd, h1, h2⟩ := hc
  obtain ⟨P, hP, hget⟩ := postParams_ok _ h1 h2
  simp only [hnd, if_true, hP]
  obtain ⟨hse, hso, hsi, hsr, hsa, hsrm⟩ := sem_fields p.params
  obtain ⟨c1, c2, c3, c5, _, _, hanch, _⟩ := classOf_some hcls
  unfold aspecCore
  simp only [not_allX hp, Bool.false_eq_true, if_false, parseRestrictions_render p.restr hp.2.2.2 (seq_no_anchor hp)]
  have hrm : P.flag .rightmost = (paramSem p.params).rightmost := by
    rw [hsrm]; simp [Params.flag, hget, postGet]
  have hhas : Params.has (P.erase .rightmost) .minOverlap = (paramSem p.params).o.isSome := by
    simp [Params.has, Params.get_erase, hget, hso]
  rw [hrm, hhas]
  have hro : (if (Restr.front p.restr).isSome = true then Restr.front p.restr else Restr.back p.restr) = restrictionOf p.restr := rfl
  have c4 : ¬ ((paramSem p.params).o.isSome = true ∧ restrictionOf p.restr = some .anchored) := by
    rintro ⟨h3, h4⟩; exact ho ⟨h3, hanch.mp h4⟩
  simp only [c1, c2, if_false, hro, c3, c4, c5]
  refine ⟨_, rfl, rfl, rfl, rfl, rfl, rfl, ?_⟩
  intro k
  have hgm : Params.get (P.erase .rightmost) .minOverlap = postGet (paramDict p.params) .minOverlap := by
    simp [Params.get_erase, hget]
  simp only [hgm]
  cases hv : postGet (paramDict p.params) .minOverlap with
  | none =>
    simp only [Params.get_erase, hget]
    cases k <;> simp [aGet, hv]
  | some v =>
    simp only
    by_cases hgt : v.gtNat (expandRuns p.runs).length = true
    · simp only [hgt, if_true, Params.get_clamp, Params.get_erase, hget]
      cases k <;> simp [aGet, hv, clampV, hgt]
    · simp only [hgt, Bool.false_eq_true, if_false, Params.get_erase, hget]
      cases k <;> simp [aGet, hv, clampV, hgt]

/-! ## `construct` -/

theorem normSeq_eq (s : Str) : normSeq s = normalise s := by
  unfold normSeq normalise
  apply List.map_congr_left
  intro c _
  rfl

theorem bool_truthy (b : Bool) : (Value.bool b).truthy = b := by cases b <;> rfl

theorem int_not_gt (n : Nat) : (Value.int n).gtNat n = false := by simp [Value.gtNat, Value.den, Value.numer]

theorem countN_nonN (s : Str) : s.length - countN s = nonN s := rfl

theorem construct_eval (cls : Cls) (sq : Str) (name : Option Str) (kw : Params) (e o ind : Value) (rw aw fa anch : Bool)
    (he : Params.get kw .maxErrors = some e) (ho : Params.get kw .minOverlap = some o) (hi : Params.get kw .indels = some ind)
    (hrw : Params.get kw .readWildcards = some (.bool rw)) (haw : Params.get kw .adapterWildcards = some (.bool aw))
    (hfa : kw.flag .forceAnywhere = fa)
    (hbad : ∀ k, kwAllowed cls k = false → Params.get kw k = none)
    (hanch : (cls = .prefix ∨ cls = .suffix) ↔ anch = true)
    (hsq : sq ≠ []) (hiu : (normSeq sq).all isIupac = true) (hoint : o.isFloat = false) :
    construct cls sq name kw =
      (let s := normalise sq
       let n := nonN s
       let divisor := if e.ge1 ∧ n ≠ 0 then n else 1
       let o1 := if anch then .int s.length else if o.gtNat s.length then .int s.length else o
       let aw' := aw && !s.all isACGT
       if aw' ∧ n = 0 then .error .onlyN
       else if anch ∧ ¬ ind.truthy ∧ e.den * divisor < e.numer then .error .rateRange
       else .ok ⟨cls, s, name, e, divisor, o1, ind, .bool rw, aw', fa⟩) := by
  have hne : normSeq sq ≠ [] := by simpa [normSeq] using hsq
  have hlen : (normSeq sq).length = sq.length := by simp [normSeq]
  unfold construct
  simp only [any_bad_false cls kw hbad, Bool.false_eq_true, if_false, he, ho, hi, hrw, haw, hfa, Option.getD_some, hne,
    bool_truthy, hiu, not_true_eq_false, and_false, countN_nonN, hanch]
  rw [← normSeq_eq]
  by_cases ha : anch = true
  · simp only [ha, if_true, true_and, ← hlen, int_not_gt, Bool.false_eq_true]
    by_cases hind : ind.truthy = true
    · simp [hind, Value.isFloat]
    · simp only [Bool.not_eq_true] at hind
      simp [hind]
  · simp only [ha, if_false, false_and]
    have hfl : (if o.gtNat (normSeq sq).length = true then Value.int (normSeq sq).length else o).isFloat = false := by
      split
      · rfl
      · exact hoint
    simp [hfl]

/-! ## not linked -/

/-- the `search_parameters` dict holds exactly the settings `base` -/
structure SPOK (sp : Params) (base : Base) : Prop where
  e : Params.get sp .maxErrors = some base.e
  o : Params.get sp .minOverlap = some base.o
  oint : base.o.isFloat = false
  indels : Params.get sp .indels = some base.indels
  rw : Params.get sp .readWildcards = some (.bool base.readWildcards)
  aw : Params.get sp .adapterWildcards = some (.bool base.adapterWildcards)
  other : ∀ k, kwAllowed .anywhere k = false → Params.get sp k = none

theorem optOr_eq (a b : Option Str) : Parser.optOr a b = Notation.optOr a b := by cases a <;> rfl

theorem toKind_err {α : Type} {r : Except Err α} {e : Err} (h : r = .error e) (hk : e.isCmdline = true) :
    toKind r = .error .cmdline := by
  subst h; simp [toKind, kindOf, hk]

theorem seq_iupac {p : Part} (hp : p.WF) : (normSeq (expandRuns p.runs)).all isIupac = true := by
  rw [List.all_eq_true]
  intro c hc
  simp only [normSeq, List.mem_map] at hc
  obtain ⟨x, hx, rfl⟩ := hc
  exact all_mem (l := seqChars) (P := fun c => isIupac (normChar c)) (by decide) (expand_seqChars hp x hx)

theorem getD_eq_match (x : Option Value) (d : Value) : (match x with | some v => some v | none => some d) = some (x.getD d) := by
  cases x <;> rfl

/-- **A rendered adapter that is not linked** is built as documented. -/
theorem makeNotLinked_sem {p : Part} (hp : p.WF) {sp : Params} {base : Base} (hsp : SPOK sp base) (t : AType) (hname : Option Str) :
    toKind (makeNotLinked p.render hname t sp) =
      match meaningPart t false p base (Notation.optOr hname p.name) with
      | .error k => .error k
      | .ok (a, _) => .ok (.single a) := by
  unfold meaningPart
  by_cases hc : paramsConsistent p.params = true
  case neg =>
    obtain ⟨e, he, hk⟩ := parseASpec_err hp t (Or.inl (by simpa using hc))
    have : makeNotLinked p.render hname t sp = .error e := by simp [makeNotLinked, he]
    rw [toKind_err this hk]; simp [hc]
  simp only [hc, Bool.not_true, Bool.false_eq_true, if_false]
  cases hcls : classOf t p.restr (paramSem p.params).rightmost with
  | none =>
    obtain ⟨e, he, hk⟩ := parseASpec_err hp t (Or.inr (Or.inl hcls))
    have : makeNotLinked p.render hname t sp = .error e := by simp [makeNotLinked, he]
    rw [toKind_err this hk]
  | some cls =>
    simp only
    by_cases ho : (paramSem p.params).o.isSome = true ∧ p.restr.anchored = true
    · obtain ⟨e, he, hk⟩ := parseASpec_err hp t (Or.inr (Or.inr ho))
      have : makeNotLinked p.render hname t sp = .error e := by simp [makeNotLinked, he]
      rw [toKind_err this hk]; simp [ho]
    simp only [ho, if_false]
    obtain ⟨A, hA, hAn, hAr, hAs, hAt, hArm, hAg⟩ := parseASpec_ok hp t hc hcls ho
    obtain ⟨hse, hso, hsi, hsr, hsa, hsrm⟩ := sem_fields p.params
    obtain ⟨_, _, _, _, hclsEq, hanchIff, _, _⟩ := classOf_some hcls
    have hAcls : A.cls = cls := by unfold ASpec.cls; rw [hAt, hAr, hArm]; exact hclsEq.symm
    have hanyw : A.parameters.flag .anywhere = (paramSem p.params).anywhere := by
      rw [hsa]; simp [Params.flag, hAg, aGet, postGet]
    unfold makeNotLinked
    simp only [hA, hAcls, hanyw]
    -- the dict handed to the constructor
    generalize hps : (if (paramSem p.params).anywhere = true ∧ (cls = .front ∨ cls = .back ∨ cls = .rightmostFront) then
        A.parameters.erase .anywhere ++ [(Key.forceAnywhere, Value.bool true)] else A.parameters.erase .anywhere) = ps'
    have hget : ∀ k, Params.get ps' k =
        if (paramSem p.params).anywhere = true ∧ (cls = .front ∨ cls = .back ∨ cls = .rightmostFront) then
          (match (if k = .anywhere then none else aGet (paramDict p.params) (expandRuns p.runs).length k) with
           | some v => some v
           | none => if k = .forceAnywhere then some (.bool true) else none)
        else (if k = .anywhere then none else aGet (paramDict p.params) (expandRuns p.runs).length k) := by
      intro k
      rw [← hps]
      split
      · rw [Params.get_append, Params.get_erase, Params.get_singleton, hAg]
        by_cases hk : k = .anywhere
        · subst hk; simp
        · simp only [hk, if_false]
          cases aGet (paramDict p.params) (expandRuns p.runs).length k <;> simp [eq_comm]
      · rw [Params.get_erase, hAg]
    have hreq : Params.has ps' .required = (paramSem p.params).required.isSome := by
      simp only [Params.has, hget, hsr]
      split <;> simp [aGet] <;> (cases postGet (paramDict p.params) .required <;> simp)
    rw [hreq]
    by_cases hr : (paramSem p.params).required.isSome = true
    · simp [hr, toKind, kindOf, Err.isCmdline, Err.cls]
    simp only [hr, Bool.false_eq_true, if_false, Bool.not_false, true_and, Bool.true_and, and_false]
    unfold buildPart
    have hfaNone : Params.get (paramDict p.params) .forceAnywhere = none := paramDict_get_none _ _ (by intro n; cases n <;> simp [PName.key])
    have hreqNone : postGet (paramDict p.params) .required = none := by
      rw [← hsr]; cases h : (paramSem p.params).required with
      | none => rfl
      | some v => simp [h] at hr
    rw [construct_eval cls A.sequence (Parser.optOr hname A.name) (sp.update ps')
      ((paramSem p.params).e.getD base.e)
      (match (paramSem p.params).o with
        | some v => if v.gtNat (normalise (expandRuns p.runs)).length = true then .int (normalise (expandRuns p.runs)).length else v
        | none => base.o)
      ((paramSem p.params).indels.getD base.indels) base.readWildcards base.adapterWildcards
      (!false && (paramSem p.params).anywhere && (cls == .front || cls == .back || cls == .rightmostFront)) p.restr.anchored]
    · -- the two records agree
      simp only [hAs, hAn, optOr_eq]
      generalize normalise (expandRuns p.runs) = S
      generalize (paramSem p.params).e.getD base.e = E
      generalize (paramSem p.params).indels.getD base.indels = I
      by_cases h1 : (base.adapterWildcards && !S.all isACGT) = true ∧ nonN S = 0
      · simp only [h1, and_self, if_true]; simp [toKind, kindOf, Err.isCmdline, Err.cls]
      · simp only [h1, if_false]
        by_cases h2 : p.restr.anchored = true ∧ ¬ I.truthy = true ∧
            E.den * (if E.ge1 = true ∧ nonN S ≠ 0 then nonN S else 1) < E.numer
        · simp only [h2, and_self, if_true]; simp [toKind, kindOf, Err.isCmdline, Err.cls]
        · simp only [h2, if_false]; simp [toKind]
          cases (paramSem p.params).o <;> rfl
    all_goals
      have hk : ∀ k, k ≠ Key.anywhere → k ≠ Key.forceAnywhere →
          Params.get ps' k = aGet (paramDict p.params) (expandRuns p.runs).length k := by
        intro k h1 h2
        rw [hget]
        simp only [h1, if_false]
        by_cases hcond : (paramSem p.params).anywhere = true ∧ (cls = .front ∨ cls = .back ∨ cls = .rightmostFront)
        · rw [if_pos hcond]
          cases aGet (paramDict p.params) (expandRuns p.runs).length k with
          | none => simp [h2]
          | some v => rfl
        · rw [if_neg hcond]
    · -- max_errors
      rw [Params.get_update, hk _ (by decide) (by decide), hsp.e]
      simp only [aGet, ← hse]
      cases (paramSem p.params).e <;> rfl
    · -- min_overlap
      rw [Params.get_update, hk _ (by decide) (by decide), hsp.o]
      simp only [aGet, ← hso]
      have hl : (normalise (expandRuns p.runs)).length = (expandRuns p.runs).length := by simp [normalise]
      rw [hl]
      cases (paramSem p.params).o <;> simp [clampV]
    · -- indels
      rw [Params.get_update, hk _ (by decide) (by decide), hsp.indels]
      simp only [aGet, ← hsi]
      cases (paramSem p.params).indels <;> rfl
    · rw [Params.get_update, hk _ (by decide) (by decide), hsp.rw]
      simp [aGet, postGet, paramDict_get_none _ _ (by intro n; cases n <;> simp [PName.key] : ∀ n : PName, n.key ≠ Key.readWildcards)]
    · rw [Params.get_update, hk _ (by decide) (by decide), hsp.aw]
      simp [aGet, postGet, paramDict_get_none _ _ (by intro n; cases n <;> simp [PName.key] : ∀ n : PName, n.key ≠ Key.adapterWildcards)]
    · -- force_anywhere
      unfold Params.flag
      rw [Params.get_update, hget, hsp.other _ (by decide)]
      by_cases hcond : (paramSem p.params).anywhere = true ∧ (cls = .front ∨ cls = .back ∨ cls = .rightmostFront)
      · simp only [hcond, and_self, if_true]
        simp only [aGet, postGet, hfaNone]
        obtain ⟨h1, h2⟩ := hcond
        rcases h2 with rfl | rfl | rfl <;> simp [h1, Value.truthy, Value.numer]
      · simp only [hcond, if_false, aGet, postGet, hfaNone]
        cases ha : (paramSem p.params).anywhere
        · simp
        · have : ¬ (cls = .front ∨ cls = .back ∨ cls = .rightmostFront) := fun h => hcond ⟨ha, h⟩
          simp only [not_or] at this
          simp [this.1, this.2.1, this.2.2]
    · -- no unexpected keyword
      intro k hbadk
      have hbad2 : kwAllowed .anywhere k = false := by cases k <;> simp [kwAllowed] at hbadk ⊢
      rw [Params.get_update, hget, hsp.other k hbad2]
      have hnone : (if k = Key.anywhere then none else aGet (paramDict p.params) (expandRuns p.runs).length k) = none := by
        cases k <;> simp [kwAllowed] at hbad2 <;> (simp [aGet, hreqNone] <;> simp [postGet, hfaNone])
      rw [hnone]
      by_cases hcond : (paramSem p.params).anywhere = true ∧ (cls = .front ∨ cls = .back ∨ cls = .rightmostFront)
      · rw [if_pos hcond]
        by_cases hkf : k = Key.forceAnywhere
        · exfalso
          rw [hkf] at hbadk
          obtain ⟨_, h2⟩ := hcond
          rcases h2 with h2 | h2 | h2 <;> (rw [h2] at hbadk; simp [kwAllowed] at hbadk)
        · simp [hkf]
      · rw [if_neg hcond]
    · exact hanchIff
    · rw [hAs]; exact hp.2.2.2.1
    · rw [hAs]; exact seq_iupac hp
    · cases ho2 : (paramSem p.params).o with
      | none => exact hsp.oint
      | some v =>
        simp only
        split
        · rfl
        · have hv : Params.get (paramDict p.params) .minOverlap = some v := by
            have : postGet (paramDict p.params) .minOverlap = some v := by rw [← hso]; exact ho2
            exact this
          exact paramDict_o_int hp.2.2.1 hv

end Cutadapt.ParserProofs
