import Cutadapt.Proofs.ParserSpec
import Cutadapt.Proofs.ParserDict
/-! From the parsed part to the documented meaning (C18): `aspecCore`, `construct`, `makeNotLinked`, `makeLinked`. -/
namespace Cutadapt.ParserProofs
open Cutadapt.Parser Cutadapt.Notation

/-! ## classes -/

def restrictionOf (r : Restr) : Option Restriction := if (Restr.front r).isSome then Restr.front r else Restr.back r

theorem classOf_none {t : AType} {r : Restr} {rm : Bool} (h : classOf t r rm = none) :
    (t = .front ∧ (Restr.back r).isSome = true) ∨ (t = .back ∧ (Restr.front r).isSome = true) ∨
    (t = .anywhere ∧ (restrictionOf r).isSome = true) ∨ (rm = true ∧ (t ≠ .front ∨ (restrictionOf r).isSome = true)) := by
  cases t <;> cases r <;> cases rm <;> simp [classOf] at h <;> simp [Restr.front, Restr.back, restrictionOf]

theorem classOf_some {t : AType} {r : Restr} {rm : Bool} {cls : Cls} (h : classOf t r rm = some cls) :
    ¬ (t = .front ∧ (Restr.back r).isSome = true) ∧ ¬ (t = .back ∧ (Restr.front r).isSome = true) ∧
    ¬ (t = .anywhere ∧ (restrictionOf r).isSome = true) ∧ ¬ (rm = true ∧ (t ≠ .front ∨ (restrictionOf r).isSome = true)) ∧
    cls = clsOf t (restrictionOf r) rm ∧ ((cls = .prefix ∨ cls = .suffix) ↔ r.anchored = true) ∧
    (restrictionOf r = some .anchored ↔ r.anchored = true) ∧ ((restrictionOf r).isSome = r.restricted) := by
  cases t <;> cases r <;> cases rm <;> simp [classOf] at h <;> subst h <;>
    simp [Restr.front, Restr.back, restrictionOf, clsOf, Restr.anchored, Restr.restricted]

/-! ## `aspecCore` on a rendered part -/

/-- the `min_overlap` clamp of `AdapterSpecification.parse` -/
def clampV (len : Nat) (v : Value) : Value := if v.gtNat len then .int len else v

/-- lookups in `AdapterSpecification.parameters` in terms of the written dict `d` -/
def aGet (d : Params) (len : Nat) (k : Key) : Option Value :=
  match k with
  | .rightmost => none
  | .minOverlap => (postGet d .minOverlap).map (clampV len)
  | k => postGet d k

theorem not_allX {p : Part} (hp : p.WF) : (p.restr.pre ++ expandRuns p.runs ++ p.restr.suf).all (· = 'X') = false := by
  obtain ⟨c, tl, hsq, hx⟩ := edge_head hp.2.2.2
  cases h : (p.restr.pre ++ expandRuns p.runs ++ p.restr.suf).all (· = 'X') with
  | false => rfl
  | true =>
    exfalso
    rw [List.all_eq_true] at h
    have := h c (by simp [hsq])
    simp only [decide_eq_true_eq] at this
    subst this
    revert hx; decide

theorem seq_no_anchor {p : Part} (hp : p.WF) : ∀ c ∈ expandRuns p.runs, c ≠ '^' ∧ c ≠ '$' := by
  intro c hc
  have h := expand_seqChars hp c hc
  have hb : (c != '^' && c != '$') = true := all_mem (l := seqChars) (P := fun c => c != '^' && c != '$') (by decide) h
  simpa using hb

/-- what `paramSem` reads off the written dict agrees with the lookups after `postParams` -/
theorem sem_fields (ps : List Param) :
    (paramSem ps).e = postGet (paramDict ps) .maxErrors ∧ (paramSem ps).o = postGet (paramDict ps) .minOverlap ∧
    (paramSem ps).indels = postGet (paramDict ps) .indels ∧ (paramSem ps).required = postGet (paramDict ps) .required ∧
    (paramSem ps).anywhere = (paramDict ps).flag .anywhere ∧
    (paramSem ps).rightmost = (paramDict ps).flag .rightmost := by
  simp [paramSem, postGet]

theorem consistent_iff (ps : List Param) :
    paramsConsistent ps = true ↔ (ps.map (fun q => q.name.key)).Nodup ∧
      ¬ ((paramDict ps).has .optional = true ∧ (paramDict ps).has .required = true) ∧
      ¬ ((paramDict ps).has .indels = true ∧ (paramDict ps).has .noindels = true) := by
  simp only [paramsConsistent, Bool.and_eq_true, decide_eq_true_eq, Bool.not_eq_true', Bool.and_eq_false_iff, and_assoc]
  cases (paramDict ps).has .optional <;> cases (paramDict ps).has .required <;> cases (paramDict ps).has .indels <;>
    cases (paramDict ps).has .noindels <;> simp

/-- **Failure cases of `AdapterSpecification.parse`** on a rendered part: inconsistent parameters, a restriction (or
    `rightmost`) that the adapter type does not allow, `min_overlap` on an anchored adapter. -/
theorem parseASpec_err {p : Part} (hp : p.WF) (t : AType)
    (h : paramsConsistent p.params = false ∨ classOf t p.restr (paramSem p.params).rightmost = none ∨
         ((paramSem p.params).o.isSome = true ∧ p.restr.anchored = true)) :
    ∃ e, parseASpec p.render t = .error e ∧ e.isCmdline = true := by
  rw [parseASpec_render hp]
  by_cases hc : paramsConsistent p.params = true
  · rcases h with h | h
    · rw [hc] at h; exact Bool.noConfusion h
    rw [consistent_iff] at hc
    obtain ⟨hnd, h1, h2⟩ := hc
    obtain ⟨P, hP, hget⟩ := postParams_ok _ h1 h2
    simp only [hnd, if_true, hP]
    obtain ⟨hse, hso, hsi, hsr, hsa, hsrm⟩ := sem_fields p.params
    unfold aspecCore
    simp only [not_allX hp, Bool.false_eq_true, if_false, parseRestrictions_render p.restr hp.2.2.2 (seq_no_anchor hp)]
    have hrm : P.flag .rightmost = (paramSem p.params).rightmost := by
      rw [hsrm]; simp [Params.flag, hget, postGet]
    have hhas : Params.has (P.erase .rightmost) .minOverlap = (paramSem p.params).o.isSome := by
      simp [Params.has, Params.get_erase, hget, hso]
    rw [hrm, hhas]
    by_cases c1 : t = .front ∧ (Restr.back p.restr).isSome = true
    · exact ⟨.front5, by simp [c1], rfl⟩
    by_cases c2 : t = .back ∧ (Restr.front p.restr).isSome = true
    · exact ⟨.back3, by simp [c1, c2], rfl⟩
    have hro : (if (Restr.front p.restr).isSome = true then Restr.front p.restr else Restr.back p.restr) = restrictionOf p.restr := rfl
    simp only [c1, c2, if_false, hro]
    by_cases c3 : t = .anywhere ∧ (restrictionOf p.restr).isSome = true
    · exact ⟨.anywhereRestriction, by simp [c3], rfl⟩
    simp only [c3, if_false]
    by_cases c4 : (paramSem p.params).o.isSome = true ∧ restrictionOf p.restr = some .anchored
    · exact ⟨.anchoredMinOverlap, by simp [c4], rfl⟩
    simp only [c4, if_false]
    by_cases c5 : (paramSem p.params).rightmost = true ∧ (t ≠ .front ∨ (restrictionOf p.restr).isSome = true)
    · exact ⟨.rightmost, by simp only [c5]; simp, rfl⟩
    exfalso
    rcases h with h | h
    · rcases classOf_none h with h | h | h | h
      · exact c1 h
      · exact c2 h
      · exact c3 h
      · exact c5 h
    · apply c4
      refine ⟨h.1, ?_⟩
      cases hr : p.restr <;> simp [hr, Restr.anchored] at h <;> simp [restrictionOf, Restr.front, Restr.back]

  · -- inconsistent parameters
    have hc' := hc
    rw [consistent_iff] at hc'
    by_cases hnd : (p.params.map (fun q => q.name.key)).Nodup
    · simp only [hnd, if_true]
      have : ((paramDict p.params).has .optional = true ∧ (paramDict p.params).has .required = true) ∨
          ((paramDict p.params).has .indels = true ∧ (paramDict p.params).has .noindels = true) := by
        by_cases h1 : ((paramDict p.params).has .optional = true ∧ (paramDict p.params).has .required = true)
        · exact Or.inl h1
        · by_cases h2 : ((paramDict p.params).has .indels = true ∧ (paramDict p.params).has .noindels = true)
          · exact Or.inr h2
          · exact absurd ⟨hnd, h1, h2⟩ hc'
      obtain ⟨e, he, hk⟩ := postParams_err _ this
      exact ⟨e, by rw [he], hk⟩
    · exact ⟨.duplicateKey, by simp [hnd], rfl⟩

/-- **Success case of `AdapterSpecification.parse`** on a rendered part. -/
theorem parseASpec_ok {p : Part} (hp : p.WF) (t : AType) {cls : Cls} (hc : paramsConsistent p.params = true)
    (hcls : classOf t p.restr (paramSem p.params).rightmost = some cls)
    (ho : ¬ ((paramSem p.params).o.isSome = true ∧ p.restr.anchored = true)) :
    ∃ A, parseASpec p.render t = .ok A ∧ A.name = p.name ∧ A.restriction = restrictionOf p.restr ∧
      A.sequence = expandRuns p.runs ∧ A.atype = t ∧ A.rightmost = (paramSem p.params).rightmost ∧
      ∀ k, Params.get A.parameters k = aGet (paramDict p.params) (expandRuns p.runs).length k := by
  rw [parseASpec_render hp]
  rw [consistent_iff] at hc
  obtain ⟨hnd, h1, h2⟩ := hc
  obtain ⟨P, hP, hget⟩ := postParams_ok _ h1 h2
  simp only [hnd, if_true, hP]
  obtain ⟨hse, hso, hsi, hsr, hsa, hsrm⟩ := sem_fields p.params
  obtain ⟨c1, c2, c3, c5, _, _, hanch, _⟩ := classOf_some hcls
  unfold aspecCore
  simp only [not_allX hp, Bool.false_eq_true, if_false, parseRestrictions_render p.restr hp.2.2.2 (seq_no_anchor hp)]
  have hrm : P.flag .rightmost = (paramSem p.params).rightmost := by
    rw [hsrm]; simp [Params.flag, hget, postGet]
  have hhas : Params.has (P.erase .rightmost) .minOverlap = (paramSem p.params).o.isSome := by
    simp [Params.has, Params.get_erase, hget, hso]
  rw [hrm, hhas]
  have hro : (if (Restr.front p.restr).isSome = true then Restr.front p.restr else Restr.back p.restr) = restrictionOf p.restr := rfl
  have c4 : ¬ ((paramSem p.params).o.isSome = true ∧ restrictionOf p.restr = some .anchored) := by
    rintro ⟨h3, h4⟩; exact ho ⟨h3, hanch.mp h4⟩
  simp only [c1, c2, if_false, hro, c3, c4, c5]
  refine ⟨_, rfl, rfl, rfl, rfl, rfl, rfl, ?_⟩
  intro k
  have hgm : Params.get (P.erase .rightmost) .minOverlap = postGet (paramDict p.params) .minOverlap := by
    simp [Params.get_erase, hget]
  simp only [hgm]
  cases hv : postGet (paramDict p.params) .minOverlap with
  | none =>
    simp only [Params.get_erase, hget]
    cases k <;> simp [aGet, hv]
  | some v =>
    simp only
    by_cases hgt : v.gtNat (expandRuns p.runs).length = true
    · simp only [hgt, if_true, Params.get_clamp, Params.get_erase, hget]
      cases k <;> simp [aGet, hv, clampV, hgt]
    · simp only [hgt, Bool.false_eq_true, if_false, Params.get_erase, hget]
      cases k <;> simp [aGet, hv, clampV, hgt]

/-! ## `construct` -/

theorem normSeq_eq (s : Str) : normSeq s = normalise s := by
  unfold normSeq normalise
  apply List.map_congr_left
  intro c _
  simp [normChar, Parser.upperChar, Notation.upperChar]

theorem bool_truthy (b : Bool) : (Value.bool b).truthy = b := by cases b <;> rfl

theorem int_not_gt (n : Nat) : (Value.int n).gtNat n = false := by simp [Value.gtNat, Value.den, Value.numer]

theorem construct_eval (cls : Cls) (sq : Str) (name : Option Str) (kw : Params) (e o ind : Value) (rw aw fa : Bool)
    (he : Params.get kw .maxErrors = some e) (ho : Params.get kw .minOverlap = some o) (hi : Params.get kw .indels = some ind)
    (hrw : Params.get kw .readWildcards = some (.bool rw)) (haw : Params.get kw .adapterWildcards = some (.bool aw))
    (hfa : kw.flag .forceAnywhere = fa)
    (hbad : ∀ k, kwAllowed cls k = false → Params.get kw k = none)
    (hsq : sq ≠ []) (hiu : (normSeq sq).all isIupac = true) (hoint : o.isFloat = false) :
    construct cls sq name kw =
      (let s := normSeq sq
       let n := s.length - countN s
       let divisor := if e.ge1 = true ∧ n ≠ 0 then n else 1
       let o1 := if cls = .prefix ∨ cls = .suffix then .int s.length else if o.gtNat s.length = true then .int s.length else o
       let aw' := aw && !s.all isACGT
       if aw' = true ∧ n = 0 then .error .onlyN
       else if (cls = .prefix ∨ cls = .suffix) ∧ ind.truthy = false ∧ e.den * divisor < e.numer then .error .rateRange
       else .ok ⟨cls, s, name, e, divisor, o1, ind, .bool rw, aw', fa⟩) := by
  have hne : normSeq sq ≠ [] := by simpa [normSeq] using hsq
  have hlen : (normSeq sq).length = sq.length := by simp [normSeq]
  unfold construct
  simp only [any_bad_false cls kw hbad, Bool.false_eq_true, if_false, he, ho, hi, hrw, haw, hfa, Option.getD_some, hne,
    bool_truthy, hiu, not_true_eq_false, and_false]
  by_cases hanch : cls = .prefix ∨ cls = .suffix
  · simp only [hanch, if_true, true_and, ← hlen, int_not_gt, Bool.false_eq_true]
    by_cases hind : ind.truthy = true
    · simp [hind, Value.isFloat]
    · simp only [Bool.not_eq_true] at hind
      simp [hind]
  · simp only [hanch, if_false, false_and]
    have hfl : (if o.gtNat (normSeq sq).length = true then Value.int (normSeq sq).length else o).isFloat = false := by
      split
      · rfl
      · exact hoint
    simp [hfl]

end Cutadapt.ParserProofs
