import Cutadapt.Proofs.DpExactAnchored
/-! Exactness of the banded DP, part 8: the cell recurrence in pointwise form; origins right of an error-free copy. -/
namespace Cutadapt.Align.Exact
open Cutadapt Cutadapt.Align Cutadapt.Spec Cutadapt.Generated Cutadapt.Align.Sound Cutadapt.MatchSound

theorem fillCells_getD (cfg : Cfg) (ascii : Bool) (q : Sym) (last : Nat) (d : Entry) :
    ∀ (olds : List Entry) (rs : List Sym) (i0 : Nat) (diag prevNew : Entry), olds.length ≤ rs.length →
    ∀ t, t < olds.length →
      (fillCells cfg ascii q last (i0+1) diag prevNew rs olds).getD t d =
        if i0 + 1 + t ≤ last then
          cell cfg (charsEqual ascii (rs.getD t 0) q) (if t = 0 then diag else olds.getD (t-1) d) (olds.getD t d)
            (if t = 0 then prevNew else (fillCells cfg ascii q last (i0+1) diag prevNew rs olds).getD (t-1) d)
        else olds.getD t d
  | [], _, _, _, _, _, t, ht => by simp at ht
  | _ :: _, [], _, _, _, h, _, _ => by simp at h
  | cur :: olds, r :: rs, i0, diag, prevNew, hlen, t, ht => by
    have hlen' : olds.length ≤ rs.length := by simpa using hlen
    rw [fillCells]
    by_cases hle : i0 + 1 ≤ last
    · simp only [hle, if_true]
      cases t with
      | zero => simp [hle]
      | succ t =>
        have ht' : t < olds.length := by simpa using ht
        have ih := fillCells_getD cfg ascii q last d olds rs (i0+1) cur
          (cell cfg (charsEqual ascii r q) diag cur prevNew) hlen' t ht'
        simp only [List.getD_cons_succ, Nat.add_sub_cancel]
        rw [ih]
        have e : i0 + 1 + 1 + t = i0 + 1 + (t + 1) := by omega
        rw [e]
        split
        · congr 1
          · cases t with
            | zero => simp
            | succ t => simp
          · cases t with
            | zero => simp
            | succ t => simp
        · rfl
    · simp only [hle, if_false]
      rw [if_neg (by omega)]


theorem stepColumn_getD_zero (cfg : Cfg) (ascii : Bool) (refE : List Sym) (q : Sym) (last : Nat) (col : List Entry)
    (d : Entry) (hlen : col.length = refE.length + 1) :
    (stepColumn cfg ascii refE q last col).getD 0 d = stepCell0 cfg (col.getD 0 d) := by
  match col, hlen with
  | c0 :: rest, _ => simp [stepColumn, stepCell0]

theorem stepColumn_getD_succ (cfg : Cfg) (ascii : Bool) (refE : List Sym) (q : Sym) (last : Nat) (col : List Entry)
    (d : Entry) (hlen : col.length = refE.length + 1) (i : Nat) (hi : i < refE.length) :
    (stepColumn cfg ascii refE q last col).getD (i+1) d =
      if i + 1 ≤ last then
        cell cfg (charsEqual ascii (refE.getD i 0) q) (col.getD i d) (col.getD (i+1) d)
          ((stepColumn cfg ascii refE q last col).getD i d)
      else col.getD (i+1) d := by
  match col, hlen with
  | c0 :: rest, hlen =>
    have hlen' : rest.length = refE.length := by simpa using hlen
    have hf := fillCells_getD cfg ascii q last d rest refE 0 c0 (stepCell0 cfg c0) (by omega) i (by omega)
    simp only [Nat.zero_add] at hf
    show ((_ :: _ : List Entry)).getD (i+1) d = _
    rw [List.getD_cons_succ]
    have e : (if cfg.startInQuery then (⟨c0.cost, c0.score, c0.origin + 1⟩ : Entry)
        else ⟨c0.cost + cfg.indelCost, c0.score + insertionScore, c0.origin⟩) = stepCell0 cfg c0 := rfl
    simp only [e]
    rw [hf]
    have e2 : 1 + i = i + 1 := by omega
    rw [e2]
    split
    · congr 1
      · cases i with
        | zero => simp
        | succ i => simp
      · cases i with
        | zero => simp [stepColumn, stepCell0]
        | succ i => simp [stepColumn, stepCell0]
    · rfl

/-- where the new cell's origin comes from -/
theorem cell_origin_cases (cfg : Cfg) (b : Bool) (diag cur prev : Entry) :
    (cell cfg b diag cur prev).origin = diag.origin ∨ (cell cfg b diag cur prev).origin = prev.origin ∨
    ((cell cfg b diag cur prev).origin = cur.origin ∧ cur.cost + cfg.indelCost < diag.cost + 1) := by
  cases b
  · unfold cell
    simp only [Bool.false_eq_true, if_false]
    split
    · exact .inl rfl
    · next h =>
      simp only [Bool.and_eq_true, decide_eq_true_eq] at h
      split
      · exact .inr (.inl rfl)
      · exact .inr (.inr ⟨rfl, by omega⟩)
  · unfold cell
    simp

/-- on equal characters the cell is the diagonal neighbour plus a match -/
theorem cell_origin_match (cfg : Cfg) (diag cur prev : Entry) :
    (cell cfg true diag cur prev).origin = diag.origin := by
  unfold cell; simp


/-! ### origins on or above the diagonal of an error-free copy starting at query position `p` -/

/-- `ref` occurs without error at query position `p` -/
def CopyAt (ctx : Ctx) (p : Nat) : Prop := ∀ t, t < ctx.ref.length → delta ctx t (p + t) = 0

theorem delta_zero {ctx : Ctx} {i j : Nat} (h : delta ctx i j = 0) :
    charsEqual ctx.ascii (ctx.ref.getD i 0) (ctx.query.getD j 0) = true := by
  unfold delta Ctx.eq at h
  split at h
  · assumption
  · omega

theorem stepColumn_Z {ctx : Ctx} {p : Nat} (hX : CopyAt ctx p) (hsq : ctx.cfg.startInQuery = true)
    {j last lf : Nat} {col : List Entry} (hlen : col.length = ctx.ref.length + 1) (hj : j < ctx.query.length)
    (hlast : last ≤ ctx.ref.length) (hlf : j = 0 ∨ last ≤ lf + 1)
    (hZ : ∀ i, i ≤ ctx.ref.length → (j = 0 ∨ i ≤ lf) → p + i ≤ j → (p : Int) ≤ (col.getD i default).origin)
    (h0 : (col.getD 0 default).origin = (j : Int))
    (hdiag : j ≠ 0 → lf < last → (col.getD (last - 1) default).cost ≤ ctx.cfg.k)
    (hcur : j ≠ 0 → lf < last → ctx.cfg.k < (col.getD last default).cost) :
    ((stepColumn ctx.cfg ctx.ascii ctx.ref ctx.query[j] last col).getD 0 default).origin = ((j + 1 : Nat) : Int) ∧
    ∀ i, i ≤ last → p + i ≤ j + 1 →
      (p : Int) ≤ ((stepColumn ctx.cfg ctx.ascii ctx.ref ctx.query[j] last col).getD i default).origin := by
  have hc0 : ((stepColumn ctx.cfg ctx.ascii ctx.ref ctx.query[j] last col).getD 0 default).origin
      = ((j + 1 : Nat) : Int) := by
    rw [stepColumn_getD_zero _ _ _ _ _ _ _ hlen]
    unfold stepCell0
    simp only [hsq, if_true]
    rw [h0]; omega
  refine ⟨hc0, ?_⟩
  intro i
  induction i with
  | zero => intro _ hp; rw [hc0]; omega
  | succ i ih =>
    intro hil hp
    have him : i < ctx.ref.length := by omega
    rw [stepColumn_getD_succ _ _ _ _ _ _ _ hlen i him, if_pos hil]
    have hfresh : j = 0 ∨ i ≤ lf := by rcases hlf with h | h; exact .inl h; right; omega
    by_cases hon : p + i = j
    · -- on the diagonal of the copy: a match
      have hb : charsEqual ctx.ascii (ctx.ref.getD i 0) ctx.query[j] = true := by
        have hq : ctx.query[j] = ctx.query.getD j 0 := by
          rw [List.getD_eq_getElem?_getD, List.getElem?_eq_getElem hj]; rfl
        rw [hq]
        have := delta_zero (hX i him)
        rw [hon] at this
        exact this
      rw [hb, cell_origin_match]
      exact hZ i (by omega) hfresh (by omega)
    · rcases cell_origin_cases ctx.cfg (charsEqual ctx.ascii (ctx.ref.getD i 0) ctx.query[j]) (col.getD i default)
        (col.getD (i+1) default) ((stepColumn ctx.cfg ctx.ascii ctx.ref ctx.query[j] last col).getD i default)
        with h | h | ⟨h, hlt⟩
      · rw [h]; exact hZ i (by omega) hfresh (by omega)
      · rw [h]; exact ih (by omega) (by omega)
      · rw [h]
        by_cases hfr : j = 0 ∨ i + 1 ≤ lf
        · exact hZ (i+1) (by omega) hfr (by omega)
        · exfalso
          have hj0 : j ≠ 0 := fun h => hfr (.inl h)
          have hlf' : lf < last := by omega
          have hil' : last = i + 1 := by
            rcases hlf with h | h
            · exact absurd h hj0
            · omega
          have h1 := hdiag hj0 hlf'
          have h2 := hcur hj0 hlf'
          rw [hil'] at h1 h2
          simp only [Nat.add_sub_cancel] at h1
          omega


/-! ### loop-level bookkeeping -/

theorem shrinkLast_succ_cost (k : Nat) (col : List Entry) (l : Nat) (h : shrinkLast k col l = l + 1) :
    (col.getD l default).cost ≤ k := by
  cases l with
  | zero =>
    unfold shrinkLast at h
    split at h
    · omega
    · omega
  | succ l =>
    unfold shrinkLast at h
    split at h
    · have := shrinkLast_le k col l; omega
    · omega

theorem shrinkLast_pos (k : Nat) (col : List Entry) (h : (col.getD 0 default).cost ≤ k) :
    ∀ l, 1 ≤ shrinkLast k col l
  | 0 => by unfold shrinkLast; rw [if_neg (by omega)]; omega
  | l+1 => by
    unfold shrinkLast
    split
    · exact shrinkLast_pos k col h l
    · omega

/-- the fields of the next state that do not depend on the best-match bookkeeping -/
theorem columnLoop_fields (cfg : Cfg) (ascii : Bool) (refE ref : Bytes) (m : Nat) (s : LoopState) (j : Nat) (q : UInt8)
    (hd : s.done = false) (hl1 : 1 ≤ s.last) (hlm : s.last ≤ m) :
    (columnLoop cfg ascii refE ref m s (j, q)).col = stepColumn cfg ascii refE q s.last s.col ∧
    (columnLoop cfg ascii refE ref m s (j, q)).lastFilled = s.last ∧
    (columnLoop cfg ascii refE ref m s (j, q)).origin =
      ((stepColumn cfg ascii refE q s.last s.col).getD s.last default).origin ∧
    (((columnLoop cfg ascii refE ref m s (j, q)).last = shrinkLast cfg.k (stepColumn cfg ascii refE q s.last s.col) s.last ∧
        shrinkLast cfg.k (stepColumn cfg ascii refE q s.last s.col) s.last < m + 1) ∨
     ((columnLoop cfg ascii refE ref m s (j, q)).last = m ∧
        shrinkLast cfg.k (stepColumn cfg ascii refE q s.last s.col) s.last = m + 1 ∧ s.last = m)) := by
  rw [columnLoop_eq _ _ _ _ _ _ _ _ hd]
  have hle := shrinkLast_le cfg.k (stepColumn cfg ascii refE q s.last s.col) s.last
  have hge : s.last ≥ 1 := hl1
  split
  · next h => exact ⟨rfl, rfl, rfl, .inl ⟨rfl, h⟩⟩
  · next h =>
    have h1 : shrinkLast cfg.k (stepColumn cfg ascii refE q s.last s.col) s.last = m + 1 := by omega
    have h2 : s.last = m := by omega
    split
    · split
      · exact ⟨rfl, rfl, by simp only; rw [h2], .inr ⟨rfl, h1, h2⟩⟩
      · exact ⟨rfl, rfl, by simp only; rw [h2], .inr ⟨rfl, h1, h2⟩⟩
    · exact ⟨rfl, rfl, rfl, .inr ⟨rfl, h1, h2⟩⟩

/-- origins at or right of the copy for every freshly computed cell on or above its diagonal; the stale origin -/
structure InvZ (cfg : Cfg) (ref query : Bytes) (p j : Nat) (s : LoopState) : Prop where
  lf : j = 0 ∨ s.last ≤ s.lastFilled + 1
  z : ∀ i, i ≤ ref.length → (j = 0 ∨ i ≤ s.lastFilled) → p + i ≤ j → (p : Int) ≤ (s.col.getD i default).origin
  o0 : (s.col.getD 0 default).origin = (j : Int)
  dg : j ≠ 0 → s.lastFilled < s.last → (s.col.getD (s.last - 1) default).cost ≤ cfg.k
  cr : j ≠ 0 → s.lastFilled < s.last → cfg.k < (s.col.getD s.last default).cost
  last1 : 1 ≤ s.last
  so : j ≠ 0 → s.origin = (s.col.getD s.lastFilled default).origin ∧ 1 ≤ s.lastFilled

theorem columnLoop_Z {cfg : Cfg} {ref query : Bytes} (hwf : cfg.WF ref.length) {p j : Nat}
    (hX : CopyAt (mkCtx cfg ref query) p) (hsq : cfg.startInQuery = true) (hstop : cfg.stopInQuery = true)
    (hj : j < query.length) {s : LoopState} (h : Inv cfg ref query j s) (hu : InvU cfg ref query j s)
    (hz : InvZ cfg ref query p j s) (hd : s.done = false) :
    InvZ cfg ref query p (j+1) (columnLoop cfg (compareAscii cfg) (encodeRef cfg ref) ref ref.length s
      (j+1, (encodeQuery cfg query)[j]'(by rw [encodeQuery_length]; exact hj))) := by
  have hcol := h.col hd
  have hmlen : (mkCtx cfg ref query).ref.length = ref.length := encodeRef_length cfg ref
  have hj' : j < (mkCtx cfg ref query).query.length := by
    show j < (encodeQuery cfg query).length
    rw [encodeQuery_length]; exact hj
  have hj0 : minNOf cfg ref.length query.length = 0 := minNOf_stopInQuery hstop _ _
  have hstep : ColInv (mkCtx cfg ref query) (j+1) s.last (stepColumn cfg (compareAscii cfg) (encodeRef cfg ref)
      (encodeQuery cfg query)[j] s.last s.col) := stepColumn_inv hwf.indel_pos hj' hcol
  obtain ⟨hz0, hzi⟩ := stepColumn_Z (ctx := mkCtx cfg ref query) hX hsq (j := j) (last := s.last) (lf := s.lastFilled)
    hcol.len hj' (by rw [hmlen]; exact h.last_le) hz.lf
    (fun i hi => hz.z i (by rw [← hmlen]; exact hi)) hz.o0 hz.dg hz.cr
  have hU0 : UCell (mkCtx cfg ref query) (minNOf cfg ref.length query.length) 0
      (j - minNOf cfg ref.length query.length + 1)
      ((stepColumn cfg (compareAscii cfg) (encodeRef cfg ref) (encodeQuery cfg query)[j] s.last s.col).getD 0 default) :=
    stepColumn_U (ctx := mkCtx cfg ref query) (j0 := minNOf cfg ref.length query.length)
      (t := j - minNOf cfg ref.length query.length) (by have := hu.ge; omega) hj' hcol (hu.u hd) 0 (Nat.zero_le _)
  have hD : D (mkCtx cfg ref query) (minNOf cfg ref.length query.length) 0
      (j - minNOf cfg ref.length query.length + 1) = 0 := D_row_startQ hsq _
  have hz0' : ((stepColumn cfg (compareAscii cfg) (encodeRef cfg ref) (encodeQuery cfg query)[j] s.last s.col).getD 0
      default).origin = ((j + 1 : Nat) : Int) := hz0
  have hzi' : ∀ i, i ≤ s.last → p + i ≤ j + 1 → (p : Int) ≤
      ((stepColumn cfg (compareAscii cfg) (encodeRef cfg ref) (encodeQuery cfg query)[j] s.last s.col).getD i
        default).origin := hzi
  obtain ⟨f1, f2, f3, f4⟩ := columnLoop_fields cfg (compareAscii cfg) (encodeRef cfg ref) ref ref.length s (j+1)
    ((encodeQuery cfg query)[j]'(by rw [encodeQuery_length]; exact hj)) hd hz.last1 h.last_le
  have hstale : ∀ i, s.last < i → i ≤ ref.length → cfg.k <
      ((stepColumn cfg (compareAscii cfg) (encodeRef cfg ref) (encodeQuery cfg query)[j] s.last s.col).getD i
        default).cost := fun i h1 h2 => (hstep.cells i (by rw [hmlen]; exact h2)).2.2 h1
  generalize stepColumn cfg (compareAscii cfg) (encodeRef cfg ref) (encodeQuery cfg query)[j] s.last s.col = col'
    at hU0 hz0' hzi' f1 f3 f4 hstale
  have hcost0 : (col'.getD 0 default).cost ≤ cfg.k := by
    have := hU0 (by rw [hD]; exact Nat.zero_le _)
    rw [hD] at this
    omega
  have hle := shrinkLast_le cfg.k col' s.last
  have hpos := shrinkLast_pos cfg.k col' hcost0 s.last
  have hl1 := hz.last1
  have hlm := h.last_le
  refine ⟨.inr ?_, ?_, ?_, ?_, ?_, ?_, ?_⟩
  · rw [f2]; rcases f4 with ⟨g1, g2⟩ | ⟨g1, g2, g3⟩ <;> omega
  · intro i hi hfr hp
    rw [f1]
    rw [f2] at hfr
    exact hzi' i (by omega) hp
  · rw [f1]; exact hz0'
  · intro _ hlt
    rw [f1]
    rw [f2] at hlt
    rcases f4 with ⟨g1, g2⟩ | ⟨g1, g2, g3⟩
    · rw [g1] at hlt ⊢
      have e : shrinkLast cfg.k col' s.last = s.last + 1 := by omega
      rw [e, Nat.add_sub_cancel]
      exact shrinkLast_succ_cost _ _ _ e
    · omega
  · intro _ hlt
    rw [f1]
    rw [f2] at hlt
    rcases f4 with ⟨g1, g2⟩ | ⟨g1, g2, g3⟩
    · rw [g1] at hlt ⊢
      have e : shrinkLast cfg.k col' s.last = s.last + 1 := by omega
      rw [e]
      exact hstale (s.last + 1) (by omega) (by omega)
    · omega
  · rcases f4 with ⟨g1, g2⟩ | ⟨g1, g2, g3⟩
    · rw [g1]; exact hpos
    · rw [g1]; omega
  · intro _
    rw [f1, f2, f3]
    exact ⟨rfl, hl1⟩

end Cutadapt.Align.Exact
