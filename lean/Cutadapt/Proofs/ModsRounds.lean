import Cutadapt.Proofs.ModsSeg
/-! The rounds of `match_and_trim`, the parts of (linked) matches, and `remainder(matches)`. Core Lean only. -/
namespace Cutadapt
open Cutadapt.Adapters Cutadapt.Qualtrim

/-- the read after removing the matches one after the other -/
def trimAll (rd : Read) (ms : List AnyMatch) : Read := ms.foldl (fun r m => m.trimmed r) rd

@[simp] theorem trimAll_nil (rd : Read) : trimAll rd [] = rd := rfl
@[simp] theorem trimAll_cons (rd : Read) (m : AnyMatch) (ms : List AnyMatch) :
    trimAll rd (m :: ms) = trimAll (m.trimmed rd) ms := rfl

theorem trimAll_append (rd : Read) (ms ns : List AnyMatch) : trimAll rd (ms ++ ns) = trimAll (trimAll rd ms) ns := by
  simp [trimAll, List.foldl_append]

theorem trimAll_sameSeg (rd : Read) (ms : List AnyMatch) : SameSeg rd (trimAll rd ms) := by
  induction ms generalizing rd with
  | nil => exact SameSeg.refl rd
  | cons m ms ih => exact (m.trimmed_sameSeg rd).trans (ih _)

theorem trimAll_name (rd : Read) (ms : List AnyMatch) : (trimAll rd ms).name = rd.name := by
  induction ms generalizing rd with
  | nil => rfl
  | cons m ms ih => rw [trimAll_cons, ih, AnyMatch.trimmed_name]

/-! ### `rounds` -/

theorem rounds_acc (ads : List Matchable) (t : Nat) (rd : Read) (acc : List AnyMatch) :
    rounds ads t rd acc = ((rounds ads t rd []).1, acc.reverse ++ (rounds ads t rd []).2) := by
  induction t generalizing rd acc with
  | zero => simp [rounds]
  | succ t ih =>
    unfold rounds
    cases h : bestMatch ads rd.seq with
    | none => simp
    | some m =>
      simp only
      rw [ih (m.trimmed rd) (m :: acc), ih (m.trimmed rd) [m]]
      simp

theorem rounds_zero (ads : List Matchable) (rd : Read) : rounds ads 0 rd [] = (rd, []) := rfl

theorem rounds_succ_none (ads : List Matchable) (t : Nat) (rd : Read) (h : bestMatch ads rd.seq = none) :
    rounds ads (t+1) rd [] = (rd, []) := by
  unfold rounds; rw [h]; rfl

theorem rounds_succ_some (ads : List Matchable) (t : Nat) (rd : Read) (m : AnyMatch)
    (h : bestMatch ads rd.seq = some m) :
    rounds ads (t+1) rd [] = ((rounds ads t (m.trimmed rd) []).1, m :: (rounds ads t (m.trimmed rd) []).2) := by
  conv => lhs; unfold rounds
  rw [h]; simp only
  rw [rounds_acc]; rfl

/-- **The loop of `match_and_trim`.** At most `t` matches; the result is the read with all matches removed in turn;
    match number `k+1` is the best match on what matches `1..k` left; the loop ends early only at a round without match. -/
theorem rounds_spec' (ads : List Matchable) (t : Nat) (read : Read) :
    (rounds ads t read []).2.length ≤ t ∧
    (rounds ads t read []).1 = trimAll read (rounds ads t read []).2 ∧
    (∀ k (h : k < (rounds ads t read []).2.length),
        bestMatch ads (trimAll read ((rounds ads t read []).2.take k)).seq = some (rounds ads t read []).2[k]) ∧
    ((rounds ads t read []).2.length < t → bestMatch ads (rounds ads t read []).1.seq = none) := by
  induction t generalizing read with
  | zero => simp [rounds_zero]
  | succ t ih =>
    cases h : bestMatch ads read.seq with
    | none => rw [rounds_succ_none _ _ _ h]; simp [h]
    | some m =>
      rw [rounds_succ_some _ _ _ _ h]
      obtain ⟨h1, h2, h3, h4⟩ := ih (m.trimmed read)
      refine ⟨by simp; omega, by simpa using h2, ?_, ?_⟩
      · intro k hk
        cases k with
        | zero => simpa using h
        | succ k =>
          simp only [List.length_cons] at hk
          simpa using h3 k (by omega)
      · intro hlt
        simp only [List.length_cons] at hlt
        exact h4 (by omega)

/-- no match in the first round: the read comes back as it is -/
theorem rounds_nil_read (ads : List Matchable) (t : Nat) (read : Read) (h : (rounds ads t read []).2 = []) :
    (rounds ads t read []).1 = read := by
  have := (rounds_spec' ads t read).2.1
  rw [this, h]; rfl

/-! ### Parts of matches -/

/-- the single matches a match consists of, in the order they were found -/
def AnyMatch.parts : AnyMatch → List MatchRec
  | .single _ r => [r]
  | .linked _ f b => f.toList ++ b.toList

/-- coordinates lie inside the string the match was found in (soundness of the aligner, C01) -/
def MatchRec.InBounds (r : MatchRec) : Prop := r.m.rstart ≤ r.m.rstop ∧ r.m.rstop ≤ r.sequence.length

def trimParts (rd : Read) (ps : List MatchRec) : Read := ps.foldl (fun r p => p.trimmed r) rd

@[simp] theorem trimParts_nil (rd : Read) : trimParts rd [] = rd := rfl
@[simp] theorem trimParts_cons (rd : Read) (p : MatchRec) (ps : List MatchRec) :
    trimParts rd (p :: ps) = trimParts (p.trimmed rd) ps := rfl
theorem trimParts_append (rd : Read) (ps qs : List MatchRec) :
    trimParts rd (ps ++ qs) = trimParts (trimParts rd ps) qs := by
  simp [trimParts, List.foldl_append]

theorem AnyMatch.trimmed_eq_parts (m : AnyMatch) (rd : Read) : m.trimmed rd = trimParts rd m.parts := by
  cases m with
  | single _ r => rfl
  | linked _ f b => cases f <;> cases b <;> rfl

theorem trimAll_eq_parts (rd : Read) (ms : List AnyMatch) : trimAll rd ms = trimParts rd (ms.flatMap AnyMatch.parts) := by
  induction ms generalizing rd with
  | nil => rfl
  | cons m ms ih => rw [trimAll_cons, List.flatMap_cons, trimParts_append, ih, AnyMatch.trimmed_eq_parts]

/-- every part was found in exactly what the previous parts left -/
def PartChain : Read → List MatchRec → Prop
  | _, [] => True
  | rd, p :: ps => p.sequence = rd.seq ∧ PartChain (p.trimmed rd) ps

theorem partChain_append (rd : Read) (ps qs : List MatchRec) :
    PartChain rd (ps ++ qs) ↔ PartChain rd ps ∧ PartChain (trimParts rd ps) qs := by
  induction ps generalizing rd with
  | nil => simp [PartChain]
  | cons p ps ih => simp [PartChain, ih, and_assoc]

/-- every match was found in what the previous matches left (linked matches: front part first) -/
def MatchChain (rd : Read) (ms : List AnyMatch) : Prop := PartChain rd (ms.flatMap AnyMatch.parts)

theorem matchChain_cons (rd : Read) (m : AnyMatch) (ms : List AnyMatch) :
    MatchChain rd (m :: ms) ↔ PartChain rd m.parts ∧ MatchChain (m.trimmed rd) ms := by
  unfold MatchChain
  rw [List.flatMap_cons, partChain_append, AnyMatch.trimmed_eq_parts]

/-! ### `remainder` -/

theorem remainderOf_single (p : MatchRec) :
    AnyMatch.remainderOf [p] = (p.remainderInterval.1, p.remainderInterval.1 + (p.remainderInterval.2 - p.remainderInterval.1)) := by
  simp [AnyMatch.remainderOf]

theorem remainderOf_cons (p : MatchRec) (ps : List MatchRec) (h : ps ≠ []) :
    AnyMatch.remainderOf (p :: ps) =
      (p.remainderInterval.1 + (AnyMatch.remainderOf ps).1, p.remainderInterval.1 + (AnyMatch.remainderOf ps).2) := by
  cases ps with
  | nil => exact absurd rfl h
  | cons q qs =>
    unfold AnyMatch.remainderOf
    simp only [List.getLast?_cons_cons, List.map_cons, List.sum_cons]
    cases hl : (q :: qs).getLast? with
    | none => simp at hl
    | some l => simp; omega

theorem remainderOf_append (ps qs : List MatchRec) (h : qs ≠ []) :
    AnyMatch.remainderOf (ps ++ qs) =
      ((ps.map (fun p => p.remainderInterval.1)).sum + (AnyMatch.remainderOf qs).1,
       (ps.map (fun p => p.remainderInterval.1)).sum + (AnyMatch.remainderOf qs).2) := by
  induction ps with
  | nil => simp
  | cons p ps ih =>
    rw [List.cons_append, remainderOf_cons _ _ (by simp [h]), ih]
    simp; omega

theorem remainderOf_fst (ps : List MatchRec) :
    (AnyMatch.remainderOf ps).1 = if ps = [] then 0 else (ps.map (fun p => p.remainderInterval.1)).sum := by
  unfold AnyMatch.remainderOf
  cases h : ps.getLast? with
  | none => simp at h; simp [h]
  | some l =>
    have : ps ≠ [] := by intro e; simp [e] at h
    simp [this]

theorem remainder_single (m : AnyMatch) :
    remainder [m] = (m.remainderInterval.1, m.remainderInterval.1 + (m.remainderInterval.2 - m.remainderInterval.1)) := by
  simp [remainder]

theorem remainder_cons (m : AnyMatch) (ms : List AnyMatch) (h : ms ≠ []) :
    remainder (m :: ms) = (m.remainderInterval.1 + (remainder ms).1, m.remainderInterval.1 + (remainder ms).2) := by
  cases ms with
  | nil => exact absurd rfl h
  | cons q qs =>
    unfold remainder
    simp only [List.getLast?_cons_cons, List.map_cons, List.sum_cons]
    cases hl : (q :: qs).getLast? with
    | none => simp at hl
    | some l => simp; omega

theorem AnyMatch.remainderInterval_eq_parts (m : AnyMatch) (h : m.parts ≠ []) :
    m.remainderInterval.1 = (m.parts.map (fun p => p.remainderInterval.1)).sum ∧
    (m.remainderInterval.1, m.remainderInterval.1 + (m.remainderInterval.2 - m.remainderInterval.1)) =
      AnyMatch.remainderOf m.parts := by
  cases m with
  | single _ r => simp [AnyMatch.remainderInterval, AnyMatch.parts, remainderOf_single]
  | linked _ f b =>
    simp only [AnyMatch.remainderInterval, AnyMatch.parts] at h ⊢
    constructor
    · rw [remainderOf_fst]; simp [h]
    · unfold AnyMatch.remainderOf
      cases hl : (f.toList ++ b.toList).getLast? with
      | none => simp at hl; simp [hl] at h
      | some l => simp

/-- `remainder(matches)` is `remainder` of the flattened list of parts (every match has at least one part) -/
theorem remainder_eq_parts (ms : List AnyMatch) (h : ∀ m ∈ ms, m.parts ≠ []) :
    remainder ms = AnyMatch.remainderOf (ms.flatMap AnyMatch.parts) := by
  induction ms with
  | nil => rfl
  | cons m ms ih =>
    have hm := h m (List.mem_cons_self)
    obtain ⟨e1, e2⟩ := m.remainderInterval_eq_parts hm
    cases ms with
    | nil => rw [remainder_single]; simpa using e2
    | cons m' ms' =>
      have hne : (m' :: ms').flatMap AnyMatch.parts ≠ [] := by
        have := h m' (by simp)
        simp [List.flatMap_cons, this]
      rw [remainder_cons _ _ (by simp), ih (fun x hx => h x (List.mem_cons_of_mem _ hx))]
      have e3 : (m :: m' :: ms').flatMap AnyMatch.parts = m.parts ++ (m' :: ms').flatMap AnyMatch.parts :=
        List.flatMap_cons
      rw [e3, remainderOf_append _ _ hne, e1]

/-! ### `remainder` is the interval the trim action keeps -/

theorem MatchRec.trimmed_eq_sub (p : MatchRec) (rd : Read) (hs : p.sequence = rd.seq) (hb : p.InBounds) :
    (p.trimmed rd).seq = seg rd.seq p.remainderInterval.1 p.remainderInterval.2 ∧
    (QualOK rd → (p.trimmed rd).qual = rd.qual.map (seg · p.remainderInterval.1 p.remainderInterval.2)) ∧
    p.remainderInterval.1 ≤ p.remainderInterval.2 ∧ p.remainderInterval.2 ≤ rd.len := by
  obtain ⟨hb1, hb2⟩ := hb
  unfold MatchRec.trimmed MatchRec.remainderInterval SingleMatch.remainderInterval Read.len
  rw [hs] at hb2 ⊢
  by_cases hbf : p.m.before
  · simp only [hbf, if_true, Read.dropFront]
    refine ⟨by rw [seg_of_length_le _ _ _ (Nat.le_refl _)], ?_, by omega, Nat.le_refl _⟩
    intro hq
    cases hr : rd.qual with
    | none => rfl
    | some q => simp [seg_of_length_le, hq q hr]
  · simp only [hbf, Bool.false_eq_true, if_false, Read.takeFront]
    refine ⟨by rw [seg_zero], ?_, by omega, by omega⟩
    intro _
    congr 1

theorem partChain_remainder (rd : Read) (ps : List MatchRec) (hne : ps ≠ []) (hc : PartChain rd ps)
    (hb : ∀ p ∈ ps, p.InBounds) :
    (trimParts rd ps).seq = seg rd.seq (AnyMatch.remainderOf ps).1 (AnyMatch.remainderOf ps).2 ∧
    (QualOK rd → (trimParts rd ps).qual = rd.qual.map (seg · (AnyMatch.remainderOf ps).1 (AnyMatch.remainderOf ps).2)) ∧
    (AnyMatch.remainderOf ps).1 ≤ (AnyMatch.remainderOf ps).2 ∧ (AnyMatch.remainderOf ps).2 ≤ rd.len := by
  induction ps generalizing rd with
  | nil => exact absurd rfl hne
  | cons p ps ih =>
    obtain ⟨hs, hc'⟩ := hc
    obtain ⟨t1, t2, t3, t4⟩ := p.trimmed_eq_sub rd hs (hb p List.mem_cons_self)
    cases ps with
    | nil =>
      rw [remainderOf_single]
      simp only [trimParts_cons, trimParts_nil]
      have e : p.remainderInterval.1 + (p.remainderInterval.2 - p.remainderInterval.1) = p.remainderInterval.2 := by omega
      rw [e]
      exact ⟨t1, t2, t3, t4⟩
    | cons q qs =>
      obtain ⟨i1, i2, i3, i4⟩ := ih (p.trimmed rd) (by simp) hc' (fun x hx => hb x (List.mem_cons_of_mem _ hx))
      rw [remainderOf_cons _ _ (by simp)]
      simp only [trimParts_cons] at i1 i2 ⊢
      have hlen : (p.trimmed rd).len = p.remainderInterval.2 - p.remainderInterval.1 := by
        unfold Read.len at t4 ⊢
        rw [t1, seg_length]; omega
      rw [hlen] at i4
      have hmin : min p.remainderInterval.2 (p.remainderInterval.1 + (AnyMatch.remainderOf (q :: qs)).2)
          = p.remainderInterval.1 + (AnyMatch.remainderOf (q :: qs)).2 := by omega
      refine ⟨?_, ?_, by omega, by omega⟩
      · rw [i1, t1, seg_seg, hmin]
      · intro hq
        have hq' : QualOK (p.trimmed rd) := (p.trimmed_sameSeg rd).qualOK hq
        rw [i2 hq', t2 hq, Option.map_map]
        congr 1; funext x; simp [seg_seg, hmin]

/-- **`remainder(matches)` is what the trim action keeps.** For matches each found in what the previous ones left
    (as `rounds` produces them), with in-bounds coordinates: removing them one after the other leaves
    `read[start:stop]` for `(start, stop) = remainder(matches)`, and `start ≤ stop ≤ len(read)`. -/
theorem remainder_correct' (read : Read) (ms : List AnyMatch) (hne : ms ≠ []) (hp : ∀ m ∈ ms, m.parts ≠ [])
    (hc : MatchChain read ms) (hb : ∀ m ∈ ms, ∀ p ∈ m.parts, p.InBounds) :
    (trimAll read ms).seq = seg read.seq (remainder ms).1 (remainder ms).2 ∧
    (QualOK read → trimAll read ms = read.sub (remainder ms).1 (remainder ms).2) ∧
    (remainder ms).1 ≤ (remainder ms).2 ∧ (remainder ms).2 ≤ read.len := by
  have hne' : ms.flatMap AnyMatch.parts ≠ [] := by
    cases ms with
    | nil => exact absurd rfl hne
    | cons m ms => simp [List.flatMap_cons, hp m List.mem_cons_self]
  have hb' : ∀ p ∈ ms.flatMap AnyMatch.parts, p.InBounds := by
    intro p hp'
    obtain ⟨m, hm, hpm⟩ := List.mem_flatMap.mp hp'
    exact hb m hm p hpm
  obtain ⟨h1, h2, h3, h4⟩ := partChain_remainder read _ hne' hc hb'
  rw [← remainder_eq_parts ms hp] at h1 h2 h3 h4
  rw [← trimAll_eq_parts] at h1 h2
  refine ⟨h1, ?_, h3, h4⟩
  intro hq
  have hn := trimAll_name read ms
  have h2' := h2 hq
  cases ht : trimAll read ms with
  | mk n s q =>
    rw [ht] at h1 h2' hn
    simp only at h1 h2' hn
    simp [Read.sub, h1, h2', hn]

/-! ### What `matchTo`, `bestMatch` and `rounds` produce -/

theorem MatchRec.trimmed_seq (p : MatchRec) (rd : Read) :
    (p.trimmed rd).seq = if p.m.before then rd.seq.drop p.m.rstop else rd.seq.take p.m.rstart := by
  unfold MatchRec.trimmed; split <;> rfl

/-- a match returned by `match_to` consists of at least one part, and each part carries the string it was found in -/
theorem Matchable.matchTo_parts (a : Matchable) (idx : Nat) (rd : Read) (m : AnyMatch)
    (h : a.matchTo idx rd.seq = some m) : m.parts ≠ [] ∧ PartChain rd m.parts := by
  cases a with
  | single ad =>
    simp only [Matchable.matchTo, Option.map_eq_some_iff] at h
    obtain ⟨sm, _, rfl⟩ := h
    simp [AnyMatch.parts, PartChain]
  | indexed ix ids =>
    simp only [Matchable.matchTo, Option.map_eq_some_iff] at h
    obtain ⟨im, _, rfl⟩ := h
    simp [AnyMatch.parts, PartChain]
  | linked f b fr br nm =>
    simp only [Matchable.matchTo] at h
    cases hf : Adapters.matchTo f rd.seq with
    | none =>
      simp only [hf] at h
      cases hb : Adapters.matchTo b rd.seq with
      | none => simp [hb] at h
      | some bm =>
        simp only [hb] at h
        split at h
        · exact absurd h (by simp)
        · simp at h
          subst h
          simp [AnyMatch.parts, PartChain]
    | some fm =>
      simp only [hf] at h
      cases hb : Adapters.matchTo b (if fm.before then rd.seq.drop fm.rstop else rd.seq.take fm.rstart) with
      | none =>
        simp only [hb] at h
        split at h
        · exact absurd h (by simp)
        · split at h
          · exact absurd h (by simp)
          · simp at h
            subst h
            simp [AnyMatch.parts, PartChain]
      | some bm =>
        simp only [hb] at h
        split at h
        · exact absurd h (by simp)
        · simp at h
          subst h
          simp [AnyMatch.parts, PartChain, MatchRec.trimmed_seq]

theorem bestMatchGo_mem (s : Bytes) (ads : List Matchable) (i : Nat) (best : Option AnyMatch) (m : AnyMatch)
    (h : bestMatchGo s ads i best = some m) :
    best = some m ∨ ∃ a ∈ ads, ∃ j, a.matchTo j s = some m := by
  induction ads generalizing i best with
  | nil => exact Or.inl h
  | cons a as ih =>
    unfold bestMatchGo at h
    cases hm : a.matchTo i s with
    | none =>
      rw [hm] at h
      rcases ih _ _ h with h' | ⟨a', ha', j, hj⟩
      · exact Or.inl h'
      · exact Or.inr ⟨a', List.mem_cons_of_mem _ ha', j, hj⟩
    | some m' =>
      rw [hm] at h
      have key : ∀ b, bestMatchGo s as (i+1) b = some m → (b = some m' ∨ b = best) →
          best = some m ∨ ∃ a' ∈ a :: as, ∃ j, a'.matchTo j s = some m := by
        intro b hb hor
        rcases ih _ _ hb with h' | ⟨a', ha', j, hj⟩
        · rcases hor with e | e
          · right; exact ⟨a, List.mem_cons_self, i, by rw [hm, ← e, h']⟩
          · left; rw [← e, h']
        · exact Or.inr ⟨a', List.mem_cons_of_mem _ ha', j, hj⟩
      cases best with
      | none => exact key _ h (Or.inl rfl)
      | some b =>
        simp only at h
        split at h
        · exact key _ h (Or.inl rfl)
        · exact key _ h (Or.inr rfl)

/-- `MultipleAdapters.match_to` returns a match of one of its adapters -/
theorem bestMatch_mem (ads : List Matchable) (s : Bytes) (m : AnyMatch) (h : bestMatch ads s = some m) :
    ∃ a ∈ ads, ∃ j, a.matchTo j s = some m := by
  rcases bestMatchGo_mem s ads 0 none m h with h' | h'
  · exact absurd h' (by simp)
  · exact h'

/-- the coordinates of every match of every adapter lie inside the string searched (C01's soundness, as a hypothesis
    on the adapter list) -/
def AdaptersInBounds (ads : List Matchable) : Prop :=
  ∀ a ∈ ads, ∀ j s m, a.matchTo j s = some m → ∀ p ∈ m.parts, p.InBounds

theorem rounds_chain (ads : List Matchable) (t : Nat) (read : Read) :
    (∀ m ∈ (rounds ads t read []).2, m.parts ≠ []) ∧ MatchChain read (rounds ads t read []).2 ∧
    (AdaptersInBounds ads → ∀ m ∈ (rounds ads t read []).2, ∀ p ∈ m.parts, p.InBounds) := by
  induction t generalizing read with
  | zero => simp [rounds_zero, MatchChain, PartChain]
  | succ t ih =>
    cases h : bestMatch ads read.seq with
    | none => simp [rounds_succ_none _ _ _ h, MatchChain, PartChain]
    | some m =>
      rw [rounds_succ_some _ _ _ _ h]
      obtain ⟨a, ha, j, hj⟩ := bestMatch_mem _ _ _ h
      obtain ⟨p1, p2⟩ := a.matchTo_parts j read m hj
      obtain ⟨i1, i2, i3⟩ := ih (m.trimmed read)
      refine ⟨?_, ?_, ?_⟩
      · intro x hx
        rcases List.mem_cons.mp hx with e | e
        · rw [e]; exact p1
        · exact i1 x e
      · rw [matchChain_cons]; exact ⟨p2, i2⟩
      · intro hab x hx
        rcases List.mem_cons.mp hx with e | e
        · rw [e]; exact hab a ha j _ m hj
        · exact i3 hab x e

end Cutadapt
