import Cutadapt.Stats
/-! Shared lemmas about the step/pipeline model (`Pipeline.lean`, `Stats.lean`): event classification, what modifiers and
    steps may emit, accumulator lemmas for `runStepsS/P`, `runReads`, and `summarize` as a fold that adds up. -/
namespace Cutadapt.Steps
open Cutadapt Cutadapt.Adapters

/-! ## Event classification -/

/-- a *fate* event: the read was counted as written (`sinkStat`) or in a filter category (`filtered`) -/
def isFate : Event → Bool
  | .sinkStat .. => true
  | .filtered _ => true
  | _ => false

def isWrite : Event → Bool
  | .write .. => true
  | _ => false

def isText : Event → Bool
  | .text .. => true
  | _ => false

def isInput : Event → Bool
  | .input .. => true
  | _ => false

/-- counter events of modifiers -/
def isCounter : Event → Bool
  | .qualTrimmed .. => true
  | .polyA .. => true
  | .withAdapter _ => true
  | .revComp => true
  | .matched .. => true
  | _ => false

theorem applyS_counter {names : Names} {side : Nat} {m : SMod} {r : Read} {i : Info} {r' i' e}
    (h : applyS names side m r i = .ok (r', i', e)) : ∀ ev ∈ e, isCounter ev = true := by
  cases m <;> simp only [applyS] at h <;> (repeat' split at h) <;>
    first
    | (simp at h; done)
    | (simp only [Except.ok.injEq, Prod.mk.injEq] at h
       obtain ⟨-, -, rfl⟩ := h
       simp [isCounter])
    | (simp only [Except.ok.injEq, Prod.mk.injEq] at h
       obtain ⟨-, -, rfl⟩ := h
       intro ev hev
       simp only [List.mem_cons, List.mem_map] at hev
       rcases hev with rfl | rfl | ⟨m, -, rfl⟩ <;> rfl)
    | (simp only [Except.ok.injEq, Prod.mk.injEq] at h
       obtain ⟨-, -, rfl⟩ := h
       intro ev hev
       simp only [List.mem_cons, List.mem_map] at hev
       rcases hev with rfl | ⟨m, -, rfl⟩ <;> rfl)

theorem matchedEvents_counter (side : Nat) (ms : List AnyMatch) (rc : Bool) :
    ∀ ev ∈ matchedEvents side ms rc, isCounter ev = true := by
  intro ev hev
  unfold matchedEvents at hev
  split at hev
  · simp at hev
  · simp only [List.mem_cons, List.mem_map] at hev
    rcases hev with rfl | ⟨m, -, rfl⟩ <;> rfl

theorem applyP_counter {a1 a2 : List Matchable} {m : PMod} {r : Read × Read} {i : Info × Info} {r' i' e}
    (h : applyP a1 a2 m r i = .ok (r', i', e)) : ∀ ev ∈ e, isCounter ev = true := by
  obtain ⟨r1, r2⟩ := r
  obtain ⟨i1, i2⟩ := i
  cases m with
  | wrap m1 m2 =>
    cases m1 <;> cases m2 <;> simp only [applyP, bind, Except.bind, pure, Except.pure] at h <;>
      (repeat' split at h) <;> (try (simp at h; done)) <;>
      simp only [Except.ok.injEq, Prod.mk.injEq] at h <;> obtain ⟨-, -, rfl⟩ := h
    · simp
    · rename_i v hv
      exact applyS_counter (r' := v.1) (i' := v.2.1) hv
    · rename_i v hv
      simpa using applyS_counter (r' := v.1) (i' := v.2.1) (e := v.2.2) hv
    · rename_i v1 hv1 _ v2 hv2
      intro ev hev
      rcases List.mem_append.1 hev with hev | hev
      · exact applyS_counter (r' := v1.1) (i' := v1.2.1) hv1 ev hev
      · exact applyS_counter (r' := v2.1) (i' := v2.2.1) hv2 ev hev
  | pairedRevcomp c1 c2 suffix first1 first2 =>
    simp only [applyP, bind, Except.bind] at h
    repeat' split at h
    all_goals try (simp at h; done)
    all_goals
      simp only [pure, Except.pure, Except.ok.injEq, Prod.mk.injEq] at h
      obtain ⟨-, -, rfl⟩ := h
      intro ev hev
      simp only [List.mem_append] at hev
      rcases hev with (hev | hev) | hev
      · first
          | (simp at hev; done)
          | (simp at hev; subst hev; rfl)
      · exact matchedEvents_counter _ _ _ ev hev
      · exact matchedEvents_counter _ _ _ ev hev
  | pairAdapters ads1 ads2 action f1 f2 =>
    simp only [applyP, bind, Except.bind] at h
    repeat' split at h
    all_goals try (simp at h; done)
    · simp only [Except.ok.injEq, Prod.mk.injEq] at h
      obtain ⟨-, -, rfl⟩ := h
      simp
    all_goals
      simp only [pure, Except.pure, Except.ok.injEq, Prod.mk.injEq] at h
      obtain ⟨-, -, rfl⟩ := h
      simp [isCounter]
  | pairedRename t1 t2 =>
    simp only [applyP, bind, Except.bind] at h
    repeat' split at h
    all_goals try (simp at h; done)
    simp only [pure, Except.pure, Except.ok.injEq, Prod.mk.injEq] at h
    obtain ⟨-, -, rfl⟩ := h
    simp

/-! ## Steps -/

/-- steps that let a read through (possibly consuming it when they are filters) -/
def _root_.Cutadapt.Step.isPass : Step → Bool
  | .restWriter _ => true
  | .infoWriter _ => true
  | .wildcardWriter _ => true
  | .filter .. => true
  | _ => false

/-- steps that consume every read: sinks and demultiplexers -/
def _root_.Cutadapt.Step.isFinal : Step → Bool
  | .sink _ => true
  | .demux .. => true
  | .combDemux _ => true
  | _ => false

/-- record writers a step may write to -/
def _root_.Cutadapt.Step.writers : Step → List Nat
  | .filter _ _ _ w => w.toList
  | .sink w => [w]
  | .demux ws un => ws.map (·.2) ++ un.toList
  | .combDemux ws => ws.map (·.2)
  | _ => []

/-- the redirect write of a filter -/
def redir (w : Option Nat) (r1 : Read) (r2 : Option Read) : List Event :=
  match w with
  | some w => [.write w r1 r2]
  | none => []

theorem lookupLast_mem [BEq κ] {k : κ} {l : List (κ × ν)} {v : ν} (h : lookupLast k l = some v) :
    ∃ k', (k', v) ∈ l ∧ (k' == k) = true := by
  unfold lookupLast at h
  simp only [Option.map_eq_some_iff] at h
  obtain ⟨⟨k', v'⟩, hf, rfl⟩ := h
  have := List.find?_some hf
  have hm := List.mem_of_find?_eq_some hf
  exact ⟨k', by simpa using hm, this⟩

theorem lookupLast_mem_snd [BEq κ] {k : κ} {l : List (κ × ν)} {v : ν} (h : lookupLast k l = some v) :
    v ∈ l.map (·.2) := by
  obtain ⟨k', hm, -⟩ := lookupLast_mem h
  exact List.mem_map.2 ⟨_, hm, rfl⟩

/-- what a single step can do with a single-end read -/
theorem stepS_pass {ads : List Matchable} {idx : Nat} {s : Step} {r : Read} {i : Info} {o e}
    (hs : s.isPass = true) (h : stepS ads idx s r i = .ok (o, e)) :
    (o = some r ∧ ∀ ev ∈ e, isText ev = true) ∨
    (o = none ∧ ∃ p p2 mode w, s = .filter (some p) p2 mode w ∧ p.test r i = .ok true ∧ e = .filtered idx :: redir w r none) := by
  cases s with
  | restWriter f =>
    simp only [stepS] at h
    repeat' split at h
    all_goals try (simp at h; done)
    all_goals
      simp only [Except.ok.injEq, Prod.mk.injEq] at h
      obtain ⟨rfl, rfl⟩ := h
      left; simp [isText]
  | infoWriter f =>
    simp only [stepS, Except.ok.injEq, Prod.mk.injEq] at h
    obtain ⟨rfl, rfl⟩ := h
    left; simp [isText]
  | wildcardWriter f =>
    simp only [stepS] at h
    repeat' split at h
    all_goals try (simp at h; done)
    all_goals
      simp only [Except.ok.injEq, Prod.mk.injEq] at h
      obtain ⟨rfl, rfl⟩ := h
      left; simp [isText]
  | filter p1 p2 mode w =>
    simp only [stepS] at h
    split at h
    · simp at h
    · rename_i p
      split at h
      · simp at h
      · rename_i ht
        simp only [Except.ok.injEq, Prod.mk.injEq] at h
        obtain ⟨rfl, rfl⟩ := h
        right
        exact ⟨rfl, p, p2, mode, w, rfl, ht, by cases w <;> rfl⟩
      · simp only [Except.ok.injEq, Prod.mk.injEq] at h
        obtain ⟨rfl, rfl⟩ := h
        left; simp
  | sink w => simp [Step.isPass] at hs
  | demux ws un => simp [Step.isPass] at hs
  | combDemux ws => simp [Step.isPass] at hs

theorem stepS_final {ads : List Matchable} {idx : Nat} {s : Step} {r : Read} {i : Info} {o e}
    (hs : s.isFinal = true) (h : stepS ads idx s r i = .ok (o, e)) :
    o = none ∧ ((∃ w ∈ s.writers, e = [.write w r none, .sinkStat idx r.len none] ∨
                                  e = [.sinkStat idx r.len none, .write w r none]) ∨
                (e = [.filtered idx] ∧ s.filterIdent.isSome = true)) := by
  cases s with
  | restWriter f => simp [Step.isFinal] at hs
  | infoWriter f => simp [Step.isFinal] at hs
  | wildcardWriter f => simp [Step.isFinal] at hs
  | filter p1 p2 mode w => simp [Step.isFinal] at hs
  | sink w =>
    simp only [stepS, Except.ok.injEq, Prod.mk.injEq] at h
    obtain ⟨rfl, rfl⟩ := h
    exact ⟨rfl, .inl ⟨w, by simp [Step.writers], .inl rfl⟩⟩
  | demux ws un =>
    simp only [stepS] at h
    split at h
    · split at h
      · rename_i w hw
        simp only [Except.ok.injEq, Prod.mk.injEq] at h
        obtain ⟨rfl, rfl⟩ := h
        refine ⟨rfl, .inl ⟨w, ?_, .inr rfl⟩⟩
        simp only [Step.writers, List.mem_append]
        exact .inl (lookupLast_mem_snd hw)
      · simp at h
    · split at h
      · rename_i w
        simp only [Except.ok.injEq, Prod.mk.injEq] at h
        obtain ⟨rfl, rfl⟩ := h
        exact ⟨rfl, .inl ⟨w, by simp [Step.writers], .inr rfl⟩⟩
      · simp only [Except.ok.injEq, Prod.mk.injEq] at h
        obtain ⟨rfl, rfl⟩ := h
        exact ⟨rfl, .inr ⟨rfl, rfl⟩⟩
  | combDemux ws => simp [stepS] at h

/-- `PairedSingleEndStep`: a single-end step applied to R1 -/
def liftS (x : Except Err (Option Read × List Event)) (r2 : Read) : Except Err (Option (Read × Read) × List Event) :=
  match x with
  | .error e => .error e
  | .ok (none, evs) => .ok (none, evs)
  | .ok (some r, evs) => .ok (some (r, r2), evs)

theorem stepP_restWriter (a1 a2 : List Matchable) (idx f : Nat) (r1 r2 : Read) (i1 i2 : Info) :
    stepP a1 a2 idx (.restWriter f) (r1, r2) (i1, i2) = liftS (stepS a1 idx (.restWriter f) r1 i1) r2 := by
  simp only [stepP, liftS]
  rfl
theorem stepP_infoWriter (a1 a2 : List Matchable) (idx f : Nat) (r1 r2 : Read) (i1 i2 : Info) :
    stepP a1 a2 idx (.infoWriter f) (r1, r2) (i1, i2) = liftS (stepS a1 idx (.infoWriter f) r1 i1) r2 := by
  simp only [stepP, liftS]
  rfl
theorem stepP_wildcardWriter (a1 a2 : List Matchable) (idx f : Nat) (r1 r2 : Read) (i1 i2 : Info) :
    stepP a1 a2 idx (.wildcardWriter f) (r1, r2) (i1, i2) = liftS (stepS a1 idx (.wildcardWriter f) r1 i1) r2 := by
  simp only [stepP, liftS]
  rfl

theorem liftS_ok {x r2 o e} (h : liftS x r2 = .ok (o, e)) :
    ∃ o', x = .ok (o', e) ∧ o = o'.map (fun r => (r, r2)) := by
  unfold liftS at h
  split at h
  · simp at h
  · simp only [Except.ok.injEq, Prod.mk.injEq] at h
    obtain ⟨rfl, rfl⟩ := h
    exact ⟨none, rfl, rfl⟩
  · simp only [Except.ok.injEq, Prod.mk.injEq] at h
    obtain ⟨rfl, rfl⟩ := h
    exact ⟨_, rfl, rfl⟩

theorem stepP_pass {a1 a2 : List Matchable} {idx : Nat} {s : Step} {r1 r2 : Read} {i1 i2 : Info} {o e}
    (hs : s.isPass = true) (h : stepP a1 a2 idx s (r1, r2) (i1, i2) = .ok (o, e)) :
    (o = some (r1, r2) ∧ ∀ ev ∈ e, isText ev = true) ∨
    (o = none ∧ ∃ p1 p2 mode w, s = .filter p1 p2 mode w ∧ pairFiltered p1 p2 mode r1 r2 i1 i2 = .ok true ∧
       s.filterIdent.isSome = true ∧ e = .filtered idx :: redir w r1 (some r2)) := by
  have writer : ∀ s' : Step, (∀ p1 p2 m w, s' ≠ .filter p1 p2 m w) → s'.isPass = true →
      liftS (stepS a1 idx s' r1 i1) r2 = .ok (o, e) → o = some (r1, r2) ∧ ∀ ev ∈ e, isText ev = true := by
    intro s' hne hp hl
    obtain ⟨o', hx, rfl⟩ := liftS_ok hl
    rcases stepS_pass hp hx with ⟨rfl, ht⟩ | ⟨-, p, p2, m, w, rfl, -⟩
    · exact ⟨rfl, ht⟩
    · exact absurd rfl (hne _ _ _ _)
  cases s with
  | restWriter f => rw [stepP_restWriter] at h; exact .inl (writer _ (by simp) hs h)
  | infoWriter f => rw [stepP_infoWriter] at h; exact .inl (writer _ (by simp) hs h)
  | wildcardWriter f => rw [stepP_wildcardWriter] at h; exact .inl (writer _ (by simp) hs h)
  | filter p1 p2 mode w =>
    simp only [stepP] at h
    split at h
    · simp at h
    · rename_i ht
      simp only [Except.ok.injEq, Prod.mk.injEq] at h
      obtain ⟨rfl, rfl⟩ := h
      right
      refine ⟨rfl, p1, p2, mode, w, rfl, ht, ?_, by cases w <;> rfl⟩
      cases p1 <;> cases p2 <;> simp_all [pairFiltered, Step.filterIdent]
    · simp only [Except.ok.injEq, Prod.mk.injEq] at h
      obtain ⟨rfl, rfl⟩ := h
      left; simp
  | sink w => simp [Step.isPass] at hs
  | demux ws un => simp [Step.isPass] at hs
  | combDemux ws => simp [Step.isPass] at hs

theorem stepP_final {a1 a2 : List Matchable} {idx : Nat} {s : Step} {r1 r2 : Read} {i1 i2 : Info} {o e}
    (hs : s.isFinal = true) (h : stepP a1 a2 idx s (r1, r2) (i1, i2) = .ok (o, e)) :
    o = none ∧ ((∃ w ∈ s.writers, e = [.write w r1 (some r2), .sinkStat idx r1.len (some r2.len)] ∨
                                  e = [.sinkStat idx r1.len (some r2.len), .write w r1 (some r2)]) ∨
                (e = [.filtered idx] ∧ s.filterIdent.isSome = true)) := by
  cases s with
  | restWriter f => simp [Step.isFinal] at hs
  | infoWriter f => simp [Step.isFinal] at hs
  | wildcardWriter f => simp [Step.isFinal] at hs
  | filter p1 p2 mode w => simp [Step.isFinal] at hs
  | sink w =>
    simp only [stepP, Except.ok.injEq, Prod.mk.injEq] at h
    obtain ⟨rfl, rfl⟩ := h
    exact ⟨rfl, .inl ⟨w, by simp [Step.writers], .inl rfl⟩⟩
  | demux ws un =>
    simp only [stepP] at h
    split at h
    · split at h
      · rename_i w hw
        simp only [Except.ok.injEq, Prod.mk.injEq] at h
        obtain ⟨rfl, rfl⟩ := h
        refine ⟨rfl, .inl ⟨w, ?_, .inr rfl⟩⟩
        simp only [Step.writers, List.mem_append]
        exact .inl (lookupLast_mem_snd hw)
      · simp at h
    · split at h
      · rename_i w
        simp only [Except.ok.injEq, Prod.mk.injEq] at h
        obtain ⟨rfl, rfl⟩ := h
        exact ⟨rfl, .inl ⟨w, by simp [Step.writers], .inr rfl⟩⟩
      · simp only [Except.ok.injEq, Prod.mk.injEq] at h
        obtain ⟨rfl, rfl⟩ := h
        exact ⟨rfl, .inr ⟨rfl, rfl⟩⟩
  | combDemux ws =>
    simp only [stepP] at h
    split at h
    · rename_i w hw
      simp only [Except.ok.injEq, Prod.mk.injEq] at h
      obtain ⟨rfl, rfl⟩ := h
      exact ⟨rfl, .inl ⟨w, by simpa [Step.writers] using lookupLast_mem_snd hw, .inr rfl⟩⟩
    · simp only [Except.ok.injEq, Prod.mk.injEq] at h
      obtain ⟨rfl, rfl⟩ := h
      exact ⟨rfl, .inr ⟨rfl, rfl⟩⟩

/-! ## Running a step list -/

theorem runStepsS_acc (ads : List Matchable) (steps : List Step) (idx : Nat) (r : Read) (i : Info) (evs : List Event) :
    runStepsS ads steps idx r i evs = (runStepsS ads steps idx r i []).map (evs ++ ·) := by
  induction steps generalizing idx r evs with
  | nil => simp [runStepsS, Except.map]
  | cons s ss ih =>
    simp only [runStepsS]
    split
    · rfl
    · simp [Except.map]
    · rename_i r' e' _
      rw [ih, ih (evs := [] ++ e')]
      cases runStepsS ads ss (idx + 1) r' i [] <;> simp [Except.map]

theorem runStepsP_acc (a1 a2 : List Matchable) (steps : List Step) (idx : Nat) (r : Read × Read) (i : Info × Info)
    (evs : List Event) :
    runStepsP a1 a2 steps idx r i evs = (runStepsP a1 a2 steps idx r i []).map (evs ++ ·) := by
  induction steps generalizing idx r evs with
  | nil => simp [runStepsP, Except.map]
  | cons s ss ih =>
    simp only [runStepsP]
    split
    · rfl
    · simp [Except.map]
    · rename_i r' e' _
      rw [ih, ih (evs := [] ++ e')]
      cases runStepsP a1 a2 ss (idx + 1) r' i [] <;> simp [Except.map]

theorem runStepsS_ok_acc {ads : List Matchable} {steps : List Step} {idx : Nat} {r : Read} {i : Info} {evs0 evs : List Event}
    (h : runStepsS ads steps idx r i evs0 = .ok evs) :
    ∃ app, runStepsS ads steps idx r i [] = .ok app ∧ evs = evs0 ++ app := by
  rw [runStepsS_acc] at h
  cases h' : runStepsS ads steps idx r i [] with
  | error e => simp [h', Except.map] at h
  | ok app => simp [h', Except.map] at h; exact ⟨app, rfl, h.symm⟩

theorem runStepsP_ok_acc {a1 a2 : List Matchable} {steps : List Step} {idx : Nat} {r : Read × Read} {i : Info × Info}
    {evs0 evs : List Event} (h : runStepsP a1 a2 steps idx r i evs0 = .ok evs) :
    ∃ app, runStepsP a1 a2 steps idx r i [] = .ok app ∧ evs = evs0 ++ app := by
  rw [runStepsP_acc] at h
  cases h' : runStepsP a1 a2 steps idx r i [] with
  | error e => simp [h', Except.map] at h
  | ok app => simp [h', Except.map] at h; exact ⟨app, rfl, h.symm⟩

/-- a step list as `make_pipeline_from_args` builds it: writers and filters, then one sink or demultiplexer -/
def Terminal (steps : List Step) : Prop :=
  ∃ pre last, steps = pre ++ [last] ∧ (∀ s ∈ pre, s.isPass = true) ∧ last.isFinal = true

/-- The closing events of one read (pair) in a terminal step list that starts at step index `idx`:
    written by the last step, consumed by a filter (with or without redirect file), or dropped by the demultiplexer. -/
inductive Tail (steps : List Step) (idx : Nat) (r1 : Read) (r2 : Option Read) : List Event → Prop
  | written (k : Nat) (s : Step) (w : Nat) (e : List Event) :
      steps[k]? = some s → k + 1 = steps.length → s.isFinal = true → w ∈ s.writers →
      (e = [.write w r1 r2, .sinkStat (idx + k) r1.len (r2.map Read.len)] ∨
       e = [.sinkStat (idx + k) r1.len (r2.map Read.len), .write w r1 r2]) → Tail steps idx r1 r2 e
  | filtered (k : Nat) (s : Step) (w : Option Nat) :
      steps[k]? = some s → s.filterIdent.isSome = true →
      ((∃ p1 p2 mode, s = .filter p1 p2 mode w) ∨ (w = none ∧ s.isFinal = true ∧ k + 1 = steps.length)) →
      Tail steps idx r1 r2 (.filtered (idx + k) :: redir w r1 r2)

theorem Tail.cons {steps : List Step} {idx : Nat} {r1 : Read} {r2 : Option Read} {e : List Event} (s0 : Step)
    (h : Tail steps (idx + 1) r1 r2 e) : Tail (s0 :: steps) idx r1 r2 e := by
  cases h with
  | written k s w e hk hl hf hw he =>
    refine .written (k + 1) s w e (by simpa using hk) (by simp; omega) hf hw ?_
    rw [show idx + (k + 1) = idx + 1 + k by omega]; exact he
  | filtered k s w hk hi hs =>
    rw [show idx + 1 + k = idx + (k + 1) by omega]
    refine .filtered (k + 1) s w (by simpa using hk) hi ?_
    rcases hs with hs | ⟨h1, h2, h3⟩
    · exact .inl hs
    · exact .inr ⟨h1, h2, by simp; omega⟩

theorem runStepsS_terminal {ads : List Matchable} {pre : List Step} {last : Step} {idx : Nat} {r : Read} {i : Info}
    {evs0 evs : List Event} (hp : ∀ s ∈ pre, s.isPass = true) (hl : last.isFinal = true)
    (h : runStepsS ads (pre ++ [last]) idx r i evs0 = .ok evs) :
    ∃ texts tail, evs = evs0 ++ texts ++ tail ∧ (∀ ev ∈ texts, isText ev = true) ∧
      Tail (pre ++ [last]) idx r none tail := by
  induction pre generalizing idx evs0 evs with
  | nil =>
    simp only [List.nil_append, runStepsS] at h
    split at h
    · simp at h
    · rename_i e' hs
      simp only [Except.ok.injEq] at h
      subst h
      obtain ⟨-, hcase⟩ := stepS_final hl hs
      refine ⟨[], e', by simp, by simp, ?_⟩
      rcases hcase with ⟨w, hw, he⟩ | ⟨rfl, hid⟩
      · exact .written 0 last w e' (by simp) (by simp) hl hw (by simpa using he)
      · exact .filtered 0 last none (by simp) hid (.inr ⟨rfl, hl, by simp⟩)
    · rename_i r' e' hs
      have := (stepS_final hl hs).1
      simp at this
  | cons s ss ih =>
    simp only [List.cons_append, runStepsS] at h
    have hs0 : s.isPass = true := hp s (by simp)
    split at h
    · simp at h
    · rename_i e' hs
      simp only [Except.ok.injEq] at h
      subst h
      rcases stepS_pass hs0 hs with ⟨h1, -⟩ | ⟨-, p, p2, mode, w, rfl, -, rfl⟩
      · simp at h1
      · refine ⟨[], Event.filtered idx :: redir w r none, by simp, by simp, ?_⟩
        have := Tail.filtered (steps := Step.filter (some p) p2 mode w :: (ss ++ [last])) (idx := idx) (r1 := r) (r2 := none)
          0 (.filter (some p) p2 mode w) w (by simp) rfl (.inl ⟨_, _, _, rfl⟩)
        simpa using this
    · rename_i r' e' hs
      rcases stepS_pass hs0 hs with ⟨h1, ht⟩ | ⟨h1, -⟩
      · simp only [Option.some.injEq] at h1
        subst h1
        obtain ⟨texts, tail, rfl, htx, htl⟩ := ih (fun s hs => hp s (by simp [hs])) h
        refine ⟨e' ++ texts, tail, by simp, ?_, Tail.cons s htl⟩
        intro ev hev
        rcases List.mem_append.1 hev with hev | hev
        · exact ht ev hev
        · exact htx ev hev
      · simp at h1

theorem runStepsP_terminal {a1 a2 : List Matchable} {pre : List Step} {last : Step} {idx : Nat} {r1 r2 : Read}
    {i : Info × Info} {evs0 evs : List Event} (hp : ∀ s ∈ pre, s.isPass = true) (hl : last.isFinal = true)
    (h : runStepsP a1 a2 (pre ++ [last]) idx (r1, r2) i evs0 = .ok evs) :
    ∃ texts tail, evs = evs0 ++ texts ++ tail ∧ (∀ ev ∈ texts, isText ev = true) ∧
      Tail (pre ++ [last]) idx r1 (some r2) tail := by
  obtain ⟨i1, i2⟩ := i
  induction pre generalizing idx evs0 evs with
  | nil =>
    simp only [List.nil_append, runStepsP] at h
    split at h
    · simp at h
    · rename_i e' hs
      simp only [Except.ok.injEq] at h
      subst h
      obtain ⟨-, hcase⟩ := stepP_final hl hs
      refine ⟨[], e', by simp, by simp, ?_⟩
      rcases hcase with ⟨w, hw, he⟩ | ⟨rfl, hid⟩
      · exact .written 0 last w e' (by simp) (by simp) hl hw (by simpa using he)
      · exact .filtered 0 last none (by simp) hid (.inr ⟨rfl, hl, by simp⟩)
    · rename_i r' e' hs
      have := (stepP_final hl hs).1
      simp at this
  | cons s ss ih =>
    simp only [List.cons_append, runStepsP] at h
    have hs0 : s.isPass = true := hp s (by simp)
    split at h
    · simp at h
    · rename_i e' hs
      simp only [Except.ok.injEq] at h
      subst h
      rcases stepP_pass hs0 hs with ⟨h1, -⟩ | ⟨-, p1, p2, mode, w, rfl, -, hid, rfl⟩
      · simp at h1
      · refine ⟨[], Event.filtered idx :: redir w r1 (some r2), by simp, by simp, ?_⟩
        have := Tail.filtered (steps := Step.filter p1 p2 mode w :: (ss ++ [last])) (idx := idx) (r1 := r1) (r2 := some r2)
          0 (.filter p1 p2 mode w) w (by simp) hid (.inl ⟨_, _, _, rfl⟩)
        simpa using this
    · rename_i r' e' hs
      rcases stepP_pass hs0 hs with ⟨h1, ht⟩ | ⟨h1, -⟩
      · simp only [Option.some.injEq] at h1
        subst h1
        obtain ⟨texts, tail, rfl, htx, htl⟩ := ih (fun s hs => hp s (by simp [hs])) h
        refine ⟨e' ++ texts, tail, by simp, ?_, Tail.cons s htl⟩
        intro ev hev
        rcases List.mem_append.1 hev with hev | hev
        · exact ht ev hev
        · exact htx ev hev
      · simp at h1

/-! ## Consequences of the tail shape -/

theorem countP_of_all_false {p : α → Bool} {l : List α} (h : ∀ x ∈ l, p x = false) : l.countP p = 0 := by
  rw [List.countP_eq_zero]; intro x hx; simp [h x hx]

theorem text_not_fate {ev : Event} (h : isText ev = true) : isFate ev = false := by cases ev <;> simp_all [isText, isFate]
theorem text_not_write {ev : Event} (h : isText ev = true) : isWrite ev = false := by cases ev <;> simp_all [isText, isWrite]
theorem text_not_input {ev : Event} (h : isText ev = true) : isInput ev = false := by cases ev <;> simp_all [isText, isInput]
theorem text_not_counter {ev : Event} (h : isText ev = true) : isCounter ev = false := by cases ev <;> simp_all [isText, isCounter]
theorem counter_not_fate {ev : Event} (h : isCounter ev = true) : isFate ev = false := by cases ev <;> simp_all [isCounter, isFate]
theorem counter_not_write {ev : Event} (h : isCounter ev = true) : isWrite ev = false := by cases ev <;> simp_all [isCounter, isWrite]
theorem counter_not_input {ev : Event} (h : isCounter ev = true) : isInput ev = false := by cases ev <;> simp_all [isCounter, isInput]
theorem counter_not_text {ev : Event} (h : isCounter ev = true) : isText ev = false := by cases ev <;> simp_all [isCounter, isText]

theorem Tail.fate_count {steps idx r1 r2 e} (h : Tail steps idx r1 r2 e) : e.countP isFate = 1 := by
  cases h with
  | written k s w e _ _ _ _ he => rcases he with rfl | rfl <;> rfl
  | filtered k s w => cases w <;> rfl

theorem Tail.write_count {steps idx r1 r2 e} (h : Tail steps idx r1 r2 e) : e.countP isWrite ≤ 1 := by
  cases h with
  | written k s w e _ _ _ _ he => rcases he with rfl | rfl <;> exact Nat.le_refl 1
  | filtered k s w => cases w <;> simp [redir, isWrite, List.countP_cons]

theorem Tail.no_input {steps idx r1 r2 e} (h : Tail steps idx r1 r2 e) : ∀ ev ∈ e, isInput ev = false := by
  cases h with
  | written k s w e _ _ _ _ he => rcases he with rfl | rfl <;> simp [isInput]
  | filtered k s w => cases w <;> simp [redir, isInput]

theorem Tail.no_counter {steps idx r1 r2 e} (h : Tail steps idx r1 r2 e) : ∀ ev ∈ e, isCounter ev = false := by
  cases h with
  | written k s w e _ _ _ _ he => rcases he with rfl | rfl <;> simp [isCounter]
  | filtered k s w => cases w <;> simp [redir, isCounter]

/-! ## Modifier stage and whole runs -/

theorem runModsS_counter {names : Names} {mods : List SMod} {r : Read} {i : Info} {evs : List Event} {r' i' evs'}
    (h : runModsS names mods r i evs = .ok (r', i', evs')) :
    ∃ app, evs' = evs ++ app ∧ ∀ ev ∈ app, isCounter ev = true := by
  induction mods generalizing r i evs with
  | nil =>
    simp only [runModsS, Except.ok.injEq, Prod.mk.injEq] at h
    exact ⟨[], by simp [h.2.2], by simp⟩
  | cons m ms ih =>
    simp only [runModsS] at h
    split at h
    · simp at h
    · rename_i r1 i1 e1 hm
      obtain ⟨app, rfl, hc⟩ := ih h
      refine ⟨e1 ++ app, by simp, ?_⟩
      intro ev hev
      rcases List.mem_append.1 hev with hev | hev
      · exact applyS_counter hm ev hev
      · exact hc ev hev

theorem runModsP_counter {a1 a2 : List Matchable} {mods : List PMod} {r : Read × Read} {i : Info × Info}
    {evs : List Event} {r' i' evs'}
    (h : runModsP a1 a2 mods r i evs = .ok (r', i', evs')) :
    ∃ app, evs' = evs ++ app ∧ ∀ ev ∈ app, isCounter ev = true := by
  induction mods generalizing r i evs with
  | nil =>
    simp only [runModsP, Except.ok.injEq, Prod.mk.injEq] at h
    exact ⟨[], by simp [h.2.2], by simp⟩
  | cons m ms ih =>
    simp only [runModsP] at h
    split at h
    · simp at h
    · rename_i r1 i1 e1 hm
      obtain ⟨app, rfl, hc⟩ := ih h
      refine ⟨e1 ++ app, by simp, ?_⟩
      intro ev hev
      rcases List.mem_append.1 hev with hev | hev
      · exact applyP_counter hm ev hev
      · exact hc ev hev

/-- the events of one read, `[]` if processing it raised an exception -/
def evsOf (f : α → Except Err (List Event)) (r : α) : List Event := (f r).toOption.getD []

theorem runReads_acc (f : α → Except Err (List Event)) (reads : List α) (evs0 : List Event) :
    runReads f reads evs0 = ((evs0 ++ (runReads f reads []).1), (runReads f reads []).2) := by
  induction reads generalizing evs0 with
  | nil => simp [runReads]
  | cons r rs ih =>
    simp only [runReads]
    split
    · simp
    · rename_i e' _
      rw [ih, ih ([] ++ e')]
      simp

/-- an error-free run is the concatenation, in input order, of the per-read event lists, and no read raised -/
theorem run_is_concat {f : α → Except Err (List Event)} {reads : List α} {evs : List Event}
    (h : runReads f reads [] = (evs, none)) :
    evs = (reads.map (evsOf f)).flatten ∧ ∀ r ∈ reads, f r = .ok (evsOf f r) := by
  induction reads generalizing evs with
  | nil => simp [runReads] at h; simp [h]
  | cons r rs ih =>
    simp only [runReads] at h
    split at h
    · simp at h
    · rename_i e' he
      rw [runReads_acc] at h
      simp only [List.nil_append, Prod.mk.injEq] at h
      obtain ⟨rfl, h2⟩ := h
      obtain ⟨h3, h4⟩ := ih (evs := (runReads f rs []).1) (by rw [← h2])
      have hr : evsOf f r = e' := by simp [evsOf, he, Except.toOption]
      refine ⟨by simp [hr, ← h3], ?_⟩
      intro x hx
      rcases List.mem_cons.1 hx with rfl | hx
      · rw [hr, he]
      · exact h4 x hx

/-! ## `summarize` adds up contributions of single events -/

theorem getCount_cons [BEq κ] (k a : κ) (b : Nat) (l : List (κ × Nat)) :
    getCount k ((a, b) :: l) = if a == k then b else getCount k l := by
  simp only [getCount, List.find?_cons]
  cases a == k <;> simp

theorem getCount_incr [BEq κ] [LawfulBEq κ] (k k' : κ) (v : Nat) (l : List (κ × Nat)) :
    getCount k (incr k' v l) = getCount k l + (if k' == k then v else 0) := by
  induction l with
  | nil =>
    simp only [incr, getCount_cons]
    cases k' == k <;> simp [getCount]
  | cons p rest ih =>
    obtain ⟨a, b⟩ := p
    simp only [incr]
    by_cases hak' : a = k'
    · subst hak'
      simp only [beq_self_eq_true, if_true, getCount_cons]
      cases a == k <;> simp
    · have h1 : (a == k') = false := by simp [hak']
      simp only [h1, Bool.false_eq_true, if_false, getCount_cons, ih]
      by_cases hk : a = k
      · subst hk
        have : (k' == a) = false := by simp; exact fun h => hak' h.symm
        simp [this]
      · have : (a == k) = false := by simp [hk]
        simp [this]

/-- total of an association list of counters -/
def sumVals (l : List (κ × Nat)) : Nat := (l.map (·.2)).sum

theorem sumVals_incr [BEq κ] (k : κ) (v : Nat) (l : List (κ × Nat)) : sumVals (incr k v l) = sumVals l + v := by
  induction l with
  | nil => simp [incr, sumVals]
  | cons p rest ih =>
    obtain ⟨a, b⟩ := p
    simp only [incr]
    split
    · simp [sumVals]; omega
    · simp only [sumVals, List.map_cons, List.sum_cons] at ih ⊢
      omega

theorem incr_keys [BEq κ] [LawfulBEq κ] (k : κ) (v : Nat) (l : List (κ × Nat)) :
    ∀ x, x ∈ (incr k v l).map (·.1) ↔ x = k ∨ x ∈ l.map (·.1) := by
  induction l with
  | nil => simp [incr]
  | cons p rest ih =>
    obtain ⟨a, b⟩ := p
    intro x
    simp only [incr]
    split
    · rename_i h
      have : a = k := by simpa using h
      subst this
      simp
    · simp only [List.map_cons, List.mem_cons, ih x]
      constructor
      · rintro (h | h | h)
        · exact .inr (.inl h)
        · exact .inl h
        · exact .inr (.inr h)
      · rintro (h | h | h)
        · exact .inr (.inl h)
        · exact .inl h
        · exact .inr (.inr h)

def evN : Event → Nat | .input .. => 1 | _ => 0
def evBp1 : Event → Nat | .input b _ => b | _ => 0
def evBp2 : Event → Nat | .input _ b => b.getD 0 | _ => 0
def evWritten : Event → Nat | .sinkStat .. => 1 | _ => 0
def evWrittenBp1 : Event → Nat | .sinkStat _ l _ => l | _ => 0
def evWrittenBp2 : Event → Nat | .sinkStat _ _ l => l.getD 0 | _ => 0
def evQual1 : Event → Nat | .qualTrimmed s k => if s = 0 then k else 0 | _ => 0
def evQual2 : Event → Nat | .qualTrimmed s k => if s = 0 then 0 else k | _ => 0
def evWith1 : Event → Nat | .withAdapter s => if s = 0 then 1 else 0 | _ => 0
def evWith2 : Event → Nat | .withAdapter s => if s = 0 then 0 else 1 | _ => 0
def evRevComp : Event → Nat | .revComp => 1 | _ => 0
def evFilteredAt (k : Nat) : Event → Nat | .filtered i => if i = k then 1 else 0 | _ => 0
def evFiltered : Event → Nat | .filtered _ => 1 | _ => 0
def evPolyA1 (n : Nat) : Event → Nat | .polyA s k => if s = 0 ∧ k = n then 1 else 0 | _ => 0
def evPolyA2 (n : Nat) : Event → Nat | .polyA s k => if s ≠ 0 ∧ k = n then 1 else 0 | _ => 0

/-- sum of a per-event contribution over a log -/
def total (c : Event → Nat) (evs : List Event) : Nat := (evs.map c).sum

theorem total_append (c : Event → Nat) (a b : List Event) : total c (a ++ b) = total c a + total c b := by
  simp [total]

theorem total_flatten (c : Event → Nat) (L : List (List Event)) : total c L.flatten = (L.map (total c)).sum := by
  induction L with
  | nil => simp [total]
  | cons a L ih => simp [total_append, ih]

theorem total_nil (c : Event → Nat) : total c [] = 0 := rfl
theorem total_cons (c : Event → Nat) (e : Event) (l : List Event) : total c (e :: l) = c e + total c l := by
  simp [total]

theorem total_eq_zero {c : Event → Nat} {l : List Event} (h : ∀ ev ∈ l, c ev = 0) : total c l = 0 := by
  induction l with
  | nil => rfl
  | cons a l ih =>
    rw [total_cons, h a (by simp), ih (fun ev hev => h ev (by simp [hev]))]

theorem foldl_add_proj (proj : Summary → Nat) (c : Event → Nat)
    (hstep : ∀ s ev, proj (s.add ev) = proj s + c ev) (evs : List Event) (s : Summary) :
    proj (evs.foldl Summary.add s) = proj s + total c evs := by
  induction evs generalizing s with
  | nil => simp [total]
  | cons e es ih => rw [List.foldl_cons, ih, hstep, total_cons]; omega

theorem add_n (s : Summary) (ev : Event) : (s.add ev).n = s.n + evN ev := by
  unfold Summary.add; split <;> simp [evN]
theorem add_bp1 (s : Summary) (ev : Event) : (s.add ev).bp1 = s.bp1 + evBp1 ev := by
  unfold Summary.add; split <;> simp [evBp1]
theorem add_bp2 (s : Summary) (ev : Event) : (s.add ev).bp2 = s.bp2 + evBp2 ev := by
  unfold Summary.add; split <;> simp [evBp2]
theorem add_written (s : Summary) (ev : Event) : (s.add ev).written = s.written + evWritten ev := by
  unfold Summary.add; split <;> simp [evWritten]
theorem add_writtenBp1 (s : Summary) (ev : Event) : (s.add ev).writtenBp1 = s.writtenBp1 + evWrittenBp1 ev := by
  unfold Summary.add; split <;> simp [evWrittenBp1]
theorem add_writtenBp2 (s : Summary) (ev : Event) : (s.add ev).writtenBp2 = s.writtenBp2 + evWrittenBp2 ev := by
  unfold Summary.add; split <;> simp [evWrittenBp2]
theorem add_qual1 (s : Summary) (ev : Event) : (s.add ev).qualTrimmed1 = s.qualTrimmed1 + evQual1 ev := by
  unfold Summary.add; split <;> simp_all [evQual1]
theorem add_qual2 (s : Summary) (ev : Event) : (s.add ev).qualTrimmed2 = s.qualTrimmed2 + evQual2 ev := by
  unfold Summary.add; split <;> simp_all [evQual2]
theorem add_with1 (s : Summary) (ev : Event) : (s.add ev).withAdapters1 = s.withAdapters1 + evWith1 ev := by
  unfold Summary.add; split <;> simp_all [evWith1]
theorem add_with2 (s : Summary) (ev : Event) : (s.add ev).withAdapters2 = s.withAdapters2 + evWith2 ev := by
  unfold Summary.add; split <;> simp_all [evWith2]
theorem add_revComp (s : Summary) (ev : Event) :
    (s.add ev).reverseComplemented = s.reverseComplemented + evRevComp ev := by
  unfold Summary.add; split <;> simp [evRevComp]
theorem add_filteredAt (k : Nat) (s : Summary) (ev : Event) :
    getCount k (s.add ev).filteredByStep = getCount k s.filteredByStep + evFilteredAt k ev := by
  unfold Summary.add; split <;> simp [evFilteredAt, getCount_incr]
theorem add_filtered (s : Summary) (ev : Event) :
    sumVals (s.add ev).filteredByStep = sumVals s.filteredByStep + evFiltered ev := by
  unfold Summary.add; split <;> simp [evFiltered, sumVals_incr]
theorem add_polyA1 (n : Nat) (s : Summary) (ev : Event) :
    getCount n (s.add ev).polyA1 = getCount n s.polyA1 + evPolyA1 n ev := by
  unfold Summary.add; split <;> simp_all [evPolyA1, getCount_incr]
theorem add_polyA2 (n : Nat) (s : Summary) (ev : Event) :
    getCount n (s.add ev).polyA2 = getCount n s.polyA2 + evPolyA2 n ev := by
  unfold Summary.add; split <;> simp_all [evPolyA2, getCount_incr]

theorem add_filtered_keys (x : Nat) (s : Summary) (ev : Event) :
    x ∈ (s.add ev).filteredByStep.map (·.1) ↔ x ∈ s.filteredByStep.map (·.1) ∨ ev = .filtered x := by
  unfold Summary.add; split <;> simp [incr_keys]
  rename_i i
  constructor
  · rintro (h | h)
    · exact .inr h.symm
    · exact .inl h
  · rintro (h | h)
    · exact .inr h
    · exact .inl h.symm

theorem summarize_filtered_keys (x : Nat) (evs : List Event) :
    x ∈ (summarize evs).filteredByStep.map (·.1) ↔ .filtered x ∈ evs := by
  have : ∀ s : Summary, x ∈ (evs.foldl Summary.add s).filteredByStep.map (·.1) ↔
      x ∈ s.filteredByStep.map (·.1) ∨ .filtered x ∈ evs := by
    induction evs with
    | nil => simp
    | cons e es ih =>
      intro s
      rw [List.foldl_cons, ih, add_filtered_keys]
      simp only [List.mem_cons]
      constructor
      · rintro ((h | h) | h)
        · exact .inl h
        · exact .inr (.inl h.symm)
        · exact .inr (.inr h)
      · rintro (h | h | h)
        · exact .inl (.inl h)
        · exact .inl (.inr h.symm)
        · exact .inr h
  simpa [summarize] using this {}

/-- every scalar figure of the summary is the sum of the per-event contributions -/
structure SummaryIs (s : Summary) (evs : List Event) : Prop where
  n : s.n = total evN evs
  bp1 : s.bp1 = total evBp1 evs
  bp2 : s.bp2 = total evBp2 evs
  written : s.written = total evWritten evs
  writtenBp1 : s.writtenBp1 = total evWrittenBp1 evs
  writtenBp2 : s.writtenBp2 = total evWrittenBp2 evs
  qualTrimmed1 : s.qualTrimmed1 = total evQual1 evs
  qualTrimmed2 : s.qualTrimmed2 = total evQual2 evs
  withAdapters1 : s.withAdapters1 = total evWith1 evs
  withAdapters2 : s.withAdapters2 = total evWith2 evs
  reverseComplemented : s.reverseComplemented = total evRevComp evs
  filteredAt : ∀ k, getCount k s.filteredByStep = total (evFilteredAt k) evs
  filteredTotal : sumVals s.filteredByStep = total evFiltered evs
  polyA1 : ∀ k, getCount k s.polyA1 = total (evPolyA1 k) evs
  polyA2 : ∀ k, getCount k s.polyA2 = total (evPolyA2 k) evs

theorem summarize_is (evs : List Event) : SummaryIs (summarize evs) evs where
  n := by simpa [summarize] using foldl_add_proj (·.n) evN add_n evs {}
  bp1 := by simpa [summarize] using foldl_add_proj (·.bp1) evBp1 add_bp1 evs {}
  bp2 := by simpa [summarize] using foldl_add_proj (·.bp2) evBp2 add_bp2 evs {}
  written := by simpa [summarize] using foldl_add_proj (·.written) evWritten add_written evs {}
  writtenBp1 := by simpa [summarize] using foldl_add_proj (·.writtenBp1) evWrittenBp1 add_writtenBp1 evs {}
  writtenBp2 := by simpa [summarize] using foldl_add_proj (·.writtenBp2) evWrittenBp2 add_writtenBp2 evs {}
  qualTrimmed1 := by simpa [summarize] using foldl_add_proj (·.qualTrimmed1) evQual1 add_qual1 evs {}
  qualTrimmed2 := by simpa [summarize] using foldl_add_proj (·.qualTrimmed2) evQual2 add_qual2 evs {}
  withAdapters1 := by simpa [summarize] using foldl_add_proj (·.withAdapters1) evWith1 add_with1 evs {}
  withAdapters2 := by simpa [summarize] using foldl_add_proj (·.withAdapters2) evWith2 add_with2 evs {}
  reverseComplemented := by simpa [summarize] using foldl_add_proj (·.reverseComplemented) evRevComp add_revComp evs {}
  filteredAt := fun k => by
    simpa [summarize, getCount] using foldl_add_proj (fun s => getCount k s.filteredByStep) (evFilteredAt k) (add_filteredAt k) evs {}
  filteredTotal := by
    simpa [summarize, sumVals] using foldl_add_proj (fun s => sumVals s.filteredByStep) evFiltered add_filtered evs {}
  polyA1 := fun k => by
    simpa [summarize, getCount] using foldl_add_proj (fun s => getCount k s.polyA1) (evPolyA1 k) (add_polyA1 k) evs {}
  polyA2 := fun k => by
    simpa [summarize, getCount] using foldl_add_proj (fun s => getCount k s.polyA2) (evPolyA2 k) (add_polyA2 k) evs {}
