import Cutadapt.Proofs.DpExactColumn
/-! Exactness of the banded DP, part 3: the loop in closed form, generic induction over the processed columns. -/
namespace Cutadapt.Align.Exact
open Cutadapt Cutadapt.Align Cutadapt.Spec Cutadapt.Generated Cutadapt.Align.Sound

/-- acceptance test of `locate` as a Boolean -/
def accB (cfg : Cfg) (ref : Bytes) (m i : Nat) (e : Entry) : Bool :=
  decide (toNatI ((i : Int) + min e.origin 0) ≥ cfg.minOverlap) &&
  decide (e.cost ≤ cfg.thr (effLen cfg ref m (toNatI (-(min e.origin 0))) i (toNatI ((i : Int) + min e.origin 0))))

/-- does the last-row candidate `e` replace `best`? -/
def rowUpd (cfg : Cfg) (ref : Bytes) (m : Nat) (best : Best) (e : Entry) : Bool :=
  accB cfg ref m m e && (!best.found
    || (decide (e.origin ≤ best.origin + ((m / 2 : Nat) : Int)) && decide (e.score > best.score))
    || (decide (((toNatI ((m : Int) + min e.origin 0) : Nat) : Int) > (m : Int) + min best.origin 0)
        && decide (e.score > best.score)))

theorem columnLoop_eq (cfg : Cfg) (ascii : Bool) (refE ref : Bytes) (m : Nat) (s : LoopState) (j : Nat) (q : UInt8)
    (hd : s.done = false) :
    columnLoop cfg ascii refE ref m s (j, q) =
      (if shrinkLast cfg.k (stepColumn cfg ascii refE q s.last s.col) s.last < m + 1 then
        ⟨stepColumn cfg ascii refE q s.last s.col, shrinkLast cfg.k (stepColumn cfg ascii refE q s.last s.col) s.last,
          s.best,
          if s.last ≥ 1 then ((stepColumn cfg ascii refE q s.last s.col).getD s.last default).origin else s.origin,
          s.last, false⟩
      else if cfg.stopInQuery then
        if rowUpd cfg ref m s.best ((stepColumn cfg ascii refE q s.last s.col).getD m default) then
          ⟨stepColumn cfg ascii refE q s.last s.col, m,
            ⟨((stepColumn cfg ascii refE q s.last s.col).getD m default).origin,
             ((stepColumn cfg ascii refE q s.last s.col).getD m default).cost,
             ((stepColumn cfg ascii refE q s.last s.col).getD m default).score, m, j, true⟩,
            ((stepColumn cfg ascii refE q s.last s.col).getD m default).origin, s.last,
            (((stepColumn cfg ascii refE q s.last s.col).getD m default).cost == 0 &&
              decide (((stepColumn cfg ascii refE q s.last s.col).getD m default).origin ≥ 0))⟩
        else ⟨stepColumn cfg ascii refE q s.last s.col, m, s.best,
            ((stepColumn cfg ascii refE q s.last s.col).getD m default).origin, s.last, false⟩
      else ⟨stepColumn cfg ascii refE q s.last s.col, m, s.best,
          if s.last ≥ 1 then ((stepColumn cfg ascii refE q s.last s.col).getD s.last default).origin else s.origin,
          s.last, false⟩ : LoopState) := by
  unfold columnLoop rowUpd accB
  simp only [hd, Bool.false_eq_true, if_false]


/-! ### the loop as a whole -/

def minNOf (cfg : Cfg) (m n : Nat) : Nat := if !cfg.stopInQuery then n - (m + cfg.k) else 0
def maxNOf (cfg : Cfg) (m n : Nat) : Nat := if !cfg.startInQuery then min n (m + cfg.k) else n

theorem minNOf_le (cfg : Cfg) (m n : Nat) : minNOf cfg m n ≤ n := by unfold minNOf; split <;> omega
theorem maxNOf_le (cfg : Cfg) (m n : Nat) : maxNOf cfg m n ≤ n := by unfold maxNOf; split <;> omega

def initState (cfg : Cfg) (m n : Nat) : LoopState :=
  ⟨(List.range (m+1)).map (initEntry cfg (minNOf cfg m n)),
   if cfg.startInRef then m else min m (cfg.k + 1), ⟨0, m + n + 1, 0, m, n, false⟩, 0, 0, false⟩

/-- the state after the column loop -/
def finalState (cfg : Cfg) (ref query : Bytes) : LoopState :=
  (((List.range query.length).zip (encodeQuery cfg query)).filterMap
      (fun (j0, q) => if minNOf cfg ref.length query.length ≤ j0 && j0 < maxNOf cfg ref.length query.length
        then some (j0+1, q) else none)).foldl
    (columnLoop cfg (compareAscii cfg) (encodeRef cfg ref) ref ref.length) (initState cfg ref.length query.length)

theorem finalBest_eq (cfg : Cfg) (ref query : Bytes) :
    finalBest cfg ref query =
      if maxNOf cfg ref.length query.length == query.length then
        lastColumnSearch cfg ref ref.length query.length (finalState cfg ref query).col (finalState cfg ref query).origin
          (if cfg.stopInRef then 0 else ref.length) (finalState cfg ref query).lastFilled (finalState cfg ref query).best
      else (finalState cfg ref query).best := rfl

/-- induction over the processed columns -/
theorem finalState_ind (cfg : Cfg) (ref query : Bytes) (P : Nat → LoopState → Prop)
    (h0 : P (minNOf cfg ref.length query.length) (initState cfg ref.length query.length))
    (hstep : ∀ j s (hj : j < query.length), minNOf cfg ref.length query.length ≤ j →
      j < maxNOf cfg ref.length query.length → P j s →
      P (j+1) (columnLoop cfg (compareAscii cfg) (encodeRef cfg ref) ref ref.length s
        (j+1, (encodeQuery cfg query)[j]'(by rw [encodeQuery_length]; exact hj)))) :
    (minNOf cfg ref.length query.length ≤ maxNOf cfg ref.length query.length →
      P (maxNOf cfg ref.length query.length) (finalState cfg ref query)) ∧
    (maxNOf cfg ref.length query.length < minNOf cfg ref.length query.length →
      finalState cfg ref query = initState cfg ref.length query.length) := by
  have hmin := minNOf_le cfg ref.length query.length
  have hmax := maxNOf_le cfg ref.length query.length
  have hfold := fold_cols' (columnLoop cfg (compareAscii cfg) (encodeRef cfg ref) ref ref.length)
    (fun j s => (minNOf cfg ref.length query.length ≤ maxNOf cfg ref.length query.length → P j s) ∧
      (maxNOf cfg ref.length query.length < minNOf cfg ref.length query.length →
        s = initState cfg ref.length query.length))
    (minNOf cfg ref.length query.length) (maxNOf cfg ref.length query.length) (encodeQuery cfg query)
    (fun j s hj h1 h2 hP => ⟨fun _ => hstep j s (by rw [← encodeQuery_length cfg query]; exact hj) h1 h2
      (hP.1 (by omega)), fun h => by omega⟩)
    query.length (encodeQuery_length cfg query).symm (initState cfg ref.length query.length)
    ⟨fun hle => by
        have e : min (minNOf cfg ref.length query.length) (maxNOf cfg ref.length query.length)
          = minNOf cfg ref.length query.length := by omega
        rw [e]; exact h0,
     fun _ => rfl⟩
  have e : min (max query.length (minNOf cfg ref.length query.length)) (maxNOf cfg ref.length query.length)
      = maxNOf cfg ref.length query.length := by omega
  rw [e] at hfold
  exact hfold

theorem initState_inv {cfg : Cfg} {ref query : Bytes} (hwf : cfg.WF ref.length) :
    Inv cfg ref query (minNOf cfg ref.length query.length) (initState cfg ref.length query.length) :=
  init_inv hwf _ (minNOf_le _ _ _) 0 _ rfl

/-- the soundness invariant holds at the end of the loop -/
theorem finalState_inv {cfg : Cfg} {ref query : Bytes} (hwf : cfg.WF ref.length)
    (hle : minNOf cfg ref.length query.length ≤ maxNOf cfg ref.length query.length) :
    Inv cfg ref query (maxNOf cfg ref.length query.length) (finalState cfg ref query) :=
  (finalState_ind cfg ref query (Inv cfg ref query) (initState_inv hwf)
    (fun _ _ hj _ _ hP => columnLoop_inv hwf hj hP)).1 hle

end Cutadapt.Align.Exact
