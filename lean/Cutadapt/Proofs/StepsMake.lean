import Cutadapt.Stats
/-! `makeSteps` restated without `do`-notation: continuation-passing stages (`makeStepsK`, definitionally equal). -/
namespace Cutadapt.Steps
open Cutadapt

abbrev K := Files → List Step → Except Err (List Step × Files)

def stText (p : Option String) (mk : Nat → Step) (f : Files) (steps : List Step) (k : K) : Except Err (List Step × Files) :=
  match p with
  | some p => match f.openText p with
    | (f', i) => k f' (steps ++ [mk i])
  | none => k f steps

def stLen (paired : Bool) (mode : PairMode) (l : Option (Option Int × Option Int)) (mk : Int → Pred)
    (out outP : Option String) (f : Files) (steps : List Step) (k : K) : Except Err (List Step × Files) :=
  match l with
  | none => if (out.isSome || outP.isSome) = true then .error .cmdline else k f steps
  | some l =>
    if (!paired && outP.isSome) = true then .error .cmdline else
      match lengthPreds mk paired l with
      | (p1, p2) =>
        match filterWriter paired f out outP with
        | (f', w) => k f' (steps ++ [Step.filter p1 p2 mode w])

def bothStep (paired : Bool) (mode : PairMode) (p : Pred) : Step :=
  if paired = true then Step.filter (some p) (some p) mode none else Step.filter (some p) none mode none

def stOpt (x : Option α) (cond : Bool) (mk : α → Step) (steps : List Step) (k : List Step → Except Err (List Step × Files)) :
    Except Err (List Step × Files) :=
  match x with
  | some c => if cond = true then k (steps ++ [mk c]) else k steps
  | none => k steps

def demuxWriter (o : Opts) (n : String) : Writer :=
  if o.paired = true then ⟨o.output.replace "{name}" n, (o.pairedOutput.map (·.replace "{name}" n)), false⟩
  else ⟨o.output.replace "{name}" n, none, false⟩

def unknownWriter (o : Opts) : Writer :=
  if o.paired = true then
    ⟨o.untrimmedOut.getD (o.output.replace "{name}" "unknown"),
      some (o.untrimmedPaired.getD ((o.pairedOutput.getD "").replace "{name}" "unknown")), false⟩
  else ⟨o.untrimmedOut.getD (o.output.replace "{name}" "unknown"), none, false⟩

def combKeys (o : Opts) (names names2 : List String) : List (Option String × Option String) :=
  (names.flatMap fun a => names2.map fun b => (some a, some b)) ++
    (if o.discardUntrimmed = true then [] else
        [(none, none)] ++ names2.map (fun n => (none, some n)) ++ names.map (fun n => (some n, none)))

def combWriter (o : Opts) (k : Option String × Option String) : Writer :=
  ⟨((o.output.replace "{name1}" (k.1.getD "unknown")).replace "{name2}" (k.2.getD "unknown")),
   some (((o.pairedOutput.getD "").replace "{name1}" (k.1.getD "unknown")).replace "{name2}" (k.2.getD "unknown")), false⟩

def sinkWriter (o : Opts) : Writer :=
  if o.paired = true then ⟨o.output, o.pairedOutput, o.pairedOutput.isNone⟩ else ⟨o.output, none, false⟩

def stFinal (o : Opts) (names names2 : List String) (mode : PairMode) (f : Files) (steps : List Step) :
    Except Err (List Step × Files) :=
  let untrimmedGiven := o.untrimmedOut.isSome || o.untrimmedPaired.isSome
  if (if o.discardTrimmed = true then 1 else 0) + (if o.discardUntrimmed = true then 1 else 0) +
      (if untrimmedGiven = true then 1 else 0) > 1 then .error .cmdline else
  demuxMode o >>= fun dm =>
  if (dm != 0 && o.discardTrimmed) = true then .error .cmdline else
  if (dm == 2 && o.pairAdapters) = true then .error .cmdline else
  if (dm == 1) = true then
    (forIn names (f, ([] : List (String × Nat))) fun n s =>
      match s.1.openWriter (demuxWriter o n) with
      | (f', i) => pure (ForInStep.yield (f', s.2 ++ [(n, i)]))) >>= fun s =>
    if (!o.discardUntrimmed) = true then
      match s.1.openWriter (unknownWriter o) with
      | (f', i) => pure (steps ++ [Step.demux s.2 (some i)], f')
    else pure (steps ++ [Step.demux s.2 none], s.1)
  else if (dm == 2) = true then
    if untrimmedGiven = true then .error .cmdline else
    (forIn (combKeys o names names2) (f, ([] : List ((Option String × Option String) × Nat))) fun k s =>
      match s.1.openWriter (combWriter o k) with
      | (f', i) => pure (ForInStep.yield (f', s.2 ++ [(k, i)]))) >>= fun s =>
    pure (steps ++ [Step.combDemux s.2], s.1)
  else
    let override := o.paired && (names2.isEmpty || names.isEmpty) && (o.discardUntrimmed || untrimmedGiven)
    let fin : K := fun f steps =>
      match f.openWriter (sinkWriter o) with
      | (f', i) => pure (steps ++ [Step.sink i], f')
    if o.discardTrimmed = true then fin f (steps ++ [bothStep o.paired mode .isTrimmed])
    else if o.discardUntrimmed = true then
      fin f (steps ++ [if o.paired = true then .filter (some .isUntrimmed) (some .isUntrimmed) (if override = true then .both else mode) none
                       else .filter (some .isUntrimmed) none mode none])
    else if untrimmedGiven = true then
      match filterWriter o.paired f o.untrimmedOut o.untrimmedPaired with
      | (f', w) =>
        fin f' (steps ++ [.filter (some .isUntrimmed) (if o.paired = true then some .isUntrimmed else none)
          (if override = true then .both else mode) w])
    else fin f steps

def makeStepsK (o : Opts) (names names2 : List String) : Except Err (List Step × Files) :=
  let mode : PairMode := o.pairFilter.getD .any
  stText o.restFile .restWriter {} [] fun f steps =>
  stText o.infoFile .infoWriter f steps fun f steps =>
  stText o.wildcardFile .wildcardWriter f steps fun f steps =>
  stLen o.paired mode o.minLen .tooShort o.tooShortOut o.tooShortPaired f steps fun f steps =>
  stLen o.paired mode o.maxLen .tooLong o.tooLongOut o.tooLongPaired f steps fun f steps =>
  stOpt o.maxN true (fun c => bothStep o.paired mode (.tooManyN c)) steps fun steps =>
  stOpt o.maxEE o.inputHasQualities (fun c => bothStep o.paired mode (.maxEE c)) steps fun steps =>
  stOpt o.maxAER o.inputHasQualities (fun c => bothStep o.paired mode (.maxAER c)) steps fun steps =>
  (if o.discardCasava = true then stFinal o names names2 mode f (steps ++ [bothStep o.paired mode .casava])
   else stFinal o names names2 mode f steps)

theorem makeSteps_eq_K (o : Opts) (names names2 : List String) : makeSteps o names names2 = makeStepsK o names names2 := by
  unfold makeSteps makeStepsK
  generalize o.restFile = x1
  generalize o.infoFile = x2
  generalize o.wildcardFile = x3
  generalize o.minLen = x4
  generalize o.maxLen = x5
  generalize o.maxN = x6
  generalize o.maxEE = x7
  generalize o.maxAER = x8
  cases x1 <;> cases x2 <;> cases x3 <;> cases x4 <;> cases x5 <;> cases x6 <;> cases x7 <;> cases x8 <;> rfl

/-! ## Direct description of the stages -/

def addText (p : Option String) (mk : Nat → Step) (st : Files × List Step) : Files × List Step :=
  match p with
  | some p => ((st.1.openText p).1, st.2 ++ [mk (st.1.openText p).2])
  | none => st

theorem stText_eq (p : Option String) (mk : Nat → Step) (f : Files) (steps : List Step) (k : K) :
    stText p mk f steps k = k (addText p mk (f, steps)).1 (addText p mk (f, steps)).2 := by
  cases p <;> rfl

def lenOk (paired : Bool) (l : Option (Option Int × Option Int)) (out outP : Option String) : Bool :=
  match l with
  | none => !(out.isSome || outP.isSome)
  | some _ => !(!paired && outP.isSome)

def addLen (paired : Bool) (mode : PairMode) (l : Option (Option Int × Option Int)) (mk : Int → Pred)
    (out outP : Option String) (st : Files × List Step) : Files × List Step :=
  match l with
  | none => st
  | some l => ((filterWriter paired st.1 out outP).1,
      st.2 ++ [Step.filter (lengthPreds mk paired l).1 (lengthPreds mk paired l).2 mode (filterWriter paired st.1 out outP).2])

theorem stLen_eq (paired : Bool) (mode : PairMode) (l : Option (Option Int × Option Int)) (mk : Int → Pred)
    (out outP : Option String) (f : Files) (steps : List Step) (k : K) :
    stLen paired mode l mk out outP f steps k =
      if lenOk paired l out outP = true then
        k (addLen paired mode l mk out outP (f, steps)).1 (addLen paired mode l mk out outP (f, steps)).2
      else .error .cmdline := by
  cases l with
  | none =>
    simp only [stLen, lenOk, addLen]
    by_cases h : (out.isSome || outP.isSome) = true <;> simp [h]
  | some l =>
    simp only [stLen, lenOk, addLen]
    by_cases h : (!paired && outP.isSome) = true
    · simp [h]
    · simp [h]

def optSteps (x : Option α) (cond : Bool) (mk : α → Step) : List Step :=
  match x with
  | some c => if cond = true then [mk c] else []
  | none => []

theorem stOpt_eq (x : Option α) (cond : Bool) (mk : α → Step) (steps : List Step)
    (k : List Step → Except Err (List Step × Files)) : stOpt x cond mk steps k = k (steps ++ optSteps x cond mk) := by
  cases x with
  | none => simp [stOpt, optSteps]
  | some c => cases cond <;> simp [stOpt, optSteps]

/-- files and steps after the rest/info/wildcard writers and the two length filters -/
def front (o : Opts) : Files × List Step :=
  addLen o.paired (o.pairFilter.getD .any) o.maxLen .tooLong o.tooLongOut o.tooLongPaired <|
  addLen o.paired (o.pairFilter.getD .any) o.minLen .tooShort o.tooShortOut o.tooShortPaired <|
  addText o.wildcardFile .wildcardWriter <| addText o.infoFile .infoWriter <| addText o.restFile .restWriter ({}, [])

def frontOk (o : Opts) : Bool :=
  lenOk o.paired o.minLen o.tooShortOut o.tooShortPaired && lenOk o.paired o.maxLen o.tooLongOut o.tooLongPaired

/-- the filters without output file: `--max-n`, `--max-ee`, `--max-aer`, `--discard-casava` -/
def simpleSteps (o : Opts) : List Step :=
  optSteps o.maxN true (fun c => bothStep o.paired (o.pairFilter.getD .any) (.tooManyN c)) ++
  optSteps o.maxEE o.inputHasQualities (fun c => bothStep o.paired (o.pairFilter.getD .any) (.maxEE c)) ++
  optSteps o.maxAER o.inputHasQualities (fun c => bothStep o.paired (o.pairFilter.getD .any) (.maxAER c)) ++
  (if o.discardCasava = true then [bothStep o.paired (o.pairFilter.getD .any) .casava] else [])

theorem makeStepsK_eq (o : Opts) (names names2 : List String) :
    makeStepsK o names names2 =
      if frontOk o = true then
        stFinal o names names2 (o.pairFilter.getD .any) (front o).1 ((front o).2 ++ simpleSteps o)
      else .error .cmdline := by
  unfold makeStepsK
  simp only [stText_eq, stLen_eq, stOpt_eq, frontOk, front, simpleSteps]
  by_cases h1 : lenOk o.paired o.minLen o.tooShortOut o.tooShortPaired = true <;>
    by_cases h2 : lenOk o.paired o.maxLen o.tooLongOut o.tooLongPaired = true <;>
    by_cases h3 : o.discardCasava = true <;> simp [h1, h2, h3]

/-! ## The last stage -/

/-- open one writer per key, in order -/
def openMany (f : Files) (keys : List κ) (mkW : κ → Writer) : Files × List (κ × Nat) :=
  ({ f with writers := f.writers ++ keys.map mkW }, keys.zipIdx f.writers.length)

theorem forIn_open (keys : List κ) (mkW : κ → Writer) (f : Files) (acc : List (κ × Nat)) :
    (forIn keys (f, acc) fun k s =>
      match s.1.openWriter (mkW k) with
      | (f', i) => (pure (ForInStep.yield (f', s.2 ++ [(k, i)])) : Except Err _)) =
    pure ((openMany f keys mkW).1, acc ++ (openMany f keys mkW).2) := by
  induction keys generalizing f acc with
  | nil => simp [openMany]
  | cons k ks ih =>
    simp only [List.forIn_cons, pure_bind]
    rw [ih]
    simp [openMany, Files.openWriter, List.zipIdx_cons]

/-- the `--discard-trimmed` / `--discard-untrimmed` / `--untrimmed-output` filter (without demultiplexing) -/
def untrimmedFilter (o : Opts) (names names2 : List String) (mode : PairMode) (f : Files) : Files × List Step :=
  let untrimmedGiven := o.untrimmedOut.isSome || o.untrimmedPaired.isSome
  let override := o.paired && (names2.isEmpty || names.isEmpty) && (o.discardUntrimmed || untrimmedGiven)
  if o.discardTrimmed = true then (f, [bothStep o.paired mode .isTrimmed])
  else if o.discardUntrimmed = true then
    (f, [if o.paired = true then .filter (some .isUntrimmed) (some .isUntrimmed) (if override = true then .both else mode) none
         else .filter (some .isUntrimmed) none mode none])
  else if untrimmedGiven = true then
    ((filterWriter o.paired f o.untrimmedOut o.untrimmedPaired).1,
     [.filter (some .isUntrimmed) (if o.paired = true then some .isUntrimmed else none)
        (if override = true then .both else mode) (filterWriter o.paired f o.untrimmedOut o.untrimmedPaired).2])
  else (f, [])

/-- the closing steps and the files they open, for demultiplexing mode `dm` -/
def finalD (o : Opts) (names names2 : List String) (mode : PairMode) (dm : Nat) (f : Files) (steps : List Step) :
    List Step × Files :=
  if dm = 1 then
    let s := openMany f names (demuxWriter o)
    if o.discardUntrimmed = true then (steps ++ [Step.demux s.2 none], s.1)
    else (steps ++ [Step.demux s.2 (some s.1.writers.length)], (s.1.openWriter (unknownWriter o)).1)
  else if dm = 2 then
    let s := openMany f (combKeys o names names2) (combWriter o)
    (steps ++ [Step.combDemux s.2], s.1)
  else
    let u := untrimmedFilter o names names2 mode f
    (steps ++ u.2 ++ [Step.sink u.1.writers.length], (u.1.openWriter (sinkWriter o)).1)

/-- the command-line checks of the last stage -/
def finalOk (o : Opts) (dm : Nat) : Bool :=
  let untrimmedGiven := o.untrimmedOut.isSome || o.untrimmedPaired.isSome
  decide ((if o.discardTrimmed = true then 1 else 0) + (if o.discardUntrimmed = true then 1 else 0) +
      (if untrimmedGiven = true then 1 else 0) ≤ 1) &&
  !(dm != 0 && o.discardTrimmed) && !(dm == 2 && o.pairAdapters) && !(dm == 2 && untrimmedGiven)

theorem stFinal_eq (o : Opts) (names names2 : List String) (mode : PairMode) (f : Files) (steps : List Step) :
    stFinal o names names2 mode f steps =
      match demuxMode o with
      | .error e =>
        if (if o.discardTrimmed = true then 1 else 0) + (if o.discardUntrimmed = true then 1 else 0) +
          (if (o.untrimmedOut.isSome || o.untrimmedPaired.isSome) = true then 1 else 0) > 1 then .error .cmdline else .error e
      | .ok dm => if finalOk o dm = true then .ok (finalD o names names2 mode dm f steps) else .error .cmdline := by
  unfold stFinal
  simp only [forIn_open, List.nil_append]
  unfold finalOk finalD untrimmedFilter
  generalize (o.untrimmedOut.isSome || o.untrimmedPaired.isSome) = ug
  cases demuxMode o with
  | error e => simp [bind, Except.bind]
  | ok dm =>
    by_cases hd1 : dm = 1
    · subst hd1
      cases o.discardTrimmed <;> cases o.discardUntrimmed <;> cases ug <;>
        simp [bind, Except.bind, pure, Except.pure, Files.openWriter]
    · by_cases hd2 : dm = 2
      · subst hd2
        cases o.discardTrimmed <;> cases o.discardUntrimmed <;> cases ug <;> cases o.pairAdapters <;>
          simp [bind, Except.bind, pure, Except.pure]
      · have hb1 : (dm == 1) = false := by simp [hd1]
        have hb2 : (dm == 2) = false := by simp [hd2]
        cases o.discardTrimmed <;> cases o.discardUntrimmed <;> cases ug <;>
          simp [bind, Except.bind, pure, Except.pure, Files.openWriter, hb1, hb2, hd1, hd2]

/-- **`makeSteps` in closed form.** A successful assembly passed all command-line checks, and its steps and files are:
    the text-file writers and length filters (`front`), the filters without output file (`simpleSteps`), and the closing
    steps (`finalD`). -/
theorem makeSteps_ok {o : Opts} {names names2 : List String} {steps : List Step} {f : Files}
    (h : makeSteps o names names2 = .ok (steps, f)) :
    ∃ dm, demuxMode o = .ok dm ∧ frontOk o = true ∧ finalOk o dm = true ∧
      (steps, f) = finalD o names names2 (o.pairFilter.getD .any) dm (front o).1 ((front o).2 ++ simpleSteps o) := by
  rw [makeSteps_eq_K, makeStepsK_eq] at h
  split at h
  · rename_i hf
    rw [stFinal_eq] at h
    split at h
    · exfalso
      by_cases hc : (if o.discardTrimmed = true then 1 else 0) + (if o.discardUntrimmed = true then 1 else 0) +
        (if (o.untrimmedOut.isSome || o.untrimmedPaired.isSome) = true then 1 else 0) > 1
      · rw [if_pos hc] at h; simp at h
      · rw [if_neg hc] at h; simp at h
    · rename_i dm hdm
      split at h
      · rename_i hk
        simp only [Except.ok.injEq] at h
        exact ⟨dm, hdm, hf, hk, h.symm⟩
      · simp at h
  · simp at h

/-- conversely, when the checks pass, the assembly succeeds with exactly that result -/
theorem makeSteps_of_ok {o : Opts} {names names2 : List String} {dm : Nat}
    (hdm : demuxMode o = .ok dm) (hf : frontOk o = true) (hk : finalOk o dm = true) :
    makeSteps o names names2 =
      .ok (finalD o names names2 (o.pairFilter.getD .any) dm (front o).1 ((front o).2 ++ simpleSteps o)) := by
  rw [makeSteps_eq_K, makeStepsK_eq, if_pos hf, stFinal_eq, hdm]
  simp [hk]
end Cutadapt.Steps
