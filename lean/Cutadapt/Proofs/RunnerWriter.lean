import Cutadapt.Runner
/-! `OrderedChunkWriter`: the invariant `WInv` and its preservation by `write` (used by C06 and C12). -/
namespace Cutadapt.Runner

theorem lookup_remove (p : List (Nat × Bytes)) (c i : Nat) :
    lookup (remove p c) i = if i = c then none else lookup p i := by
  induction p with
  | nil => simp [remove, lookup]
  | cons e r ih =>
    obtain ⟨k, d⟩ := e
    unfold remove at ih ⊢
    by_cases hk : k = c
    · subst hk
      simp only [List.filter_cons, bne_self_eq_false, Bool.false_eq_true, if_false, ih, lookup]
      by_cases hi : i = k
      · simp [hi]
      · have : ¬ k = i := fun h => hi h.symm
        simp [hi, this]
    · have hb : ((k, d).1 != c) = true := by simp [hk]
      simp only [List.filter_cons, hb, if_true, lookup, ih]
      by_cases hi : i = c
      · subst hi; simp [hk]
      · simp [hi]

theorem lookup_insert (p : List (Nat × Bytes)) (i j : Nat) (x : Bytes) :
    lookup (insert p i x) j = if j = i then some x else lookup p j := by
  unfold insert
  simp only [lookup, lookup_remove]
  by_cases h : j = i
  · simp [h]
  · have : ¬ i = j := fun e => h e.symm
    simp [h, this]

theorem remove_length_lt (p : List (Nat × Bytes)) (c : Nat) (d : Bytes) (h : lookup p c = some d) :
    (remove p c).length < p.length := by
  induction p with
  | nil => simp [lookup] at h
  | cons e r ih =>
    obtain ⟨k, x⟩ := e
    unfold remove at ih ⊢
    by_cases hk : k = c
    · subst hk
      simp only [List.filter_cons, bne_self_eq_false, Bool.false_eq_true, if_false, List.length_cons]
      have := List.length_filter_le (fun e : Nat × Bytes => e.1 != k) r
      omega
    · have hb : ((k, x).1 != c) = true := by simp [hk]
      simp only [lookup, hk, if_false] at h
      simp only [List.filter_cons, hb, if_true, List.length_cons]
      have := ih h
      omega

theorem lookup_nil_of_length (p : List (Nat × Bytes)) (h : p.length = 0) (i : Nat) : lookup p i = none := by
  cases p with
  | nil => rfl
  | cons _ _ => simp at h

/-- Invariant of one writer w.r.t. the chunk data `data` and the set `S` of indices it has been given:
    everything below `current` has arrived and has been written in order, exactly the arrived indices `≥ current`
    are pending, and `current` itself has not arrived (the `while` loop has run to completion). -/
structure WInv (data : Nat → Bytes) (w : Writer) (S : Nat → Prop) : Prop where
  written : w.written = concatRange data w.current
  pending : ∀ i d, lookup w.pending i = some d ↔ (S i ∧ w.current ≤ i ∧ d = data i)
  below : ∀ i, i < w.current → S i
  flushed : ¬ S w.current

/-- the same before the `while` loop -/
structure WPre (data : Nat → Bytes) (w : Writer) (S : Nat → Prop) : Prop where
  written : w.written = concatRange data w.current
  pending : ∀ i d, lookup w.pending i = some d ↔ (S i ∧ w.current ≤ i ∧ d = data i)
  below : ∀ i, i < w.current → S i

theorem WInv.congr {data w S S'} (h : WInv data w S) (e : ∀ i, S i ↔ S' i) : WInv data w S' :=
  ⟨h.written, fun i d => by rw [h.pending, e], fun i hi => (e i).mp (h.below i hi), fun hc => h.flushed ((e _).mpr hc)⟩

theorem WInv.init (data : Nat → Bytes) : WInv data {} (fun _ => False) :=
  ⟨rfl, fun i d => by simp [lookup], fun i hi => by simp at hi, fun h => h⟩

theorem flush_spec (data : Nat → Bytes) (S : Nat → Prop) :
    ∀ (fuel : Nat) (w : Writer), WPre data w S → w.pending.length ≤ fuel → WInv data (Writer.flush fuel w) S := by
  intro fuel
  induction fuel with
  | zero =>
    intro w h hl
    have hn := lookup_nil_of_length w.pending (by omega) w.current
    refine ⟨h.written, h.pending, h.below, fun hc => ?_⟩
    have := (h.pending w.current (data w.current)).mpr ⟨hc, Nat.le_refl _, rfl⟩
    rw [hn] at this; cases this
  | succ fuel ih =>
    intro w h hl
    unfold Writer.flush
    cases hlk : lookup w.pending w.current with
    | none =>
      refine ⟨h.written, h.pending, h.below, fun hc => ?_⟩
      have := (h.pending w.current (data w.current)).mpr ⟨hc, Nat.le_refl _, rfl⟩
      rw [hlk] at this; cases this
    | some d =>
      have ⟨hS, _, hd⟩ := (h.pending w.current d).mp hlk
      apply ih
      · refine ⟨?_, ?_, ?_⟩
        · simp only [concatRange, h.written, hd]
        · intro i x
          simp only [lookup_remove]
          by_cases hi : i = w.current
          · subst hi
            simp only [if_true]
            constructor
            · intro e; cases e
            · rintro ⟨_, b, _⟩; omega
          · simp only [hi, if_false, h.pending]
            constructor
            · rintro ⟨a, b, c⟩; exact ⟨a, by omega, c⟩
            · rintro ⟨a, b, c⟩; exact ⟨a, by omega, c⟩
        · intro i hi
          by_cases he : i = w.current
          · subst he; exact hS
          · exact h.below i (by simp only at hi; omega)
      · have := remove_length_lt w.pending w.current d hlk
        simp only; omega

/-- `write(data i, i)` for an index that has not arrived yet -/
theorem write_spec {data : Nat → Bytes} {w : Writer} {S : Nat → Prop} (h : WInv data w S) (i : Nat) (hi : ¬ S i) :
    WInv data (w.write (data i) i) (fun j => j = i ∨ S j) := by
  unfold Writer.write
  apply flush_spec
  · have hci : w.current ≤ i := by
      rcases Nat.lt_or_ge i w.current with hlt | hge
      · exact absurd (h.below i hlt) hi
      · exact hge
    refine ⟨h.written, ?_, ?_⟩
    · intro j d
      simp only [lookup_insert]
      by_cases hj : j = i
      · subst hj
        simp only [if_true, true_or, true_and]
        constructor
        · intro e; cases e; exact ⟨hci, rfl⟩
        · rintro ⟨_, e⟩; rw [e]
      · simp only [hj, if_false, false_or]
        exact h.pending j d
    · intro j hj; exact Or.inr (h.below j hj)
  · exact Nat.le_refl _

/-- the position of a writer is determined by the set of arrived indices: the least index that has not arrived -/
theorem WInv.current_unique {data data' : Nat → Bytes} {w w' : Writer} {S : Nat → Prop}
    (h : WInv data w S) (h' : WInv data' w' S) : w.current = w'.current := by
  rcases Nat.lt_trichotomy w.current w'.current with hlt | heq | hgt
  · exact absurd (h'.below _ hlt) h.flushed
  · exact heq
  · exact absurd (h.below _ hgt) h'.flushed

/-- when exactly the indices below `N` have arrived, everything has been written and nothing is pending -/
theorem WInv.complete {data : Nat → Bytes} {w : Writer} {S : Nat → Prop} {N : Nat} (h : WInv data w S)
    (hS : ∀ i, S i ↔ i < N) : w.current = N ∧ w.pending = [] ∧ w.written = concatRange data N := by
  have hc : w.current = N := by
    rcases Nat.lt_trichotomy w.current N with hlt | heq | hgt
    · exact absurd ((hS _).mpr hlt) h.flushed
    · exact heq
    · have := (hS N).mp (h.below N hgt); omega
  refine ⟨hc, ?_, by rw [h.written, hc]⟩
  cases hp : w.pending with
  | nil => rfl
  | cons e r =>
    obtain ⟨k, d⟩ := e
    have hl : lookup w.pending k = some d := by rw [hp]; simp [lookup]
    have ⟨a, b, _⟩ := (h.pending k d).mp hl
    have := (hS k).mp a
    omega

/-- feed a writer the pairs `(data i, i)` for `i` in `feed`, in that order -/
def feedAll (data : Nat → Bytes) (feed : List Nat) (w : Writer := {}) : Writer :=
  feed.foldl (fun w i => w.write (data i) i) w

theorem feedAll_inv (data : Nat → Bytes) :
    ∀ (feed : List Nat) (w : Writer) (S : Nat → Prop), WInv data w S → feed.Nodup → (∀ i, i ∈ feed → ¬ S i) →
      WInv data (feedAll data feed w) (fun j => j ∈ feed ∨ S j) := by
  intro feed
  induction feed with
  | nil => intro w S h _ _; exact h.congr (fun i => by simp)
  | cons a feed ih =>
    intro w S h hnd hS
    have hnd' := List.nodup_cons.mp hnd
    have h1 := write_spec h a (hS a (by simp))
    have h2 := ih (w.write (data a) a) _ h1 hnd'.2 (by
      intro i hi hc
      rcases hc with hc | hc
      · subst hc; exact hnd'.1 hi
      · exact hS i (by simp [hi]) hc)
    unfold feedAll at h2 ⊢
    simp only [List.foldl_cons]
    refine h2.congr (fun i => ?_)
    simp only [List.mem_cons]
    constructor
    · rintro (x | x | x)
      · exact Or.inl (Or.inr x)
      · exact Or.inl (Or.inl x)
      · exact Or.inr x
    · rintro ((x | x) | x)
      · exact Or.inr (Or.inl x)
      · exact Or.inl x
      · exact Or.inr (Or.inr x)

end Cutadapt.Runner
