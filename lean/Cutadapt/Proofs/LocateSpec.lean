import Cutadapt.Align
import Cutadapt.Spec.Edit
/-! What a result of `Align.locate` must satisfy (statement only; proofs in `AlignSoundMain`). -/
namespace Cutadapt.Align
open Cutadapt Cutadapt.Spec

/-- the character relation the DP uses on *encoded* characters -/
def Cfg.eq (cfg : Cfg) : Sym → Sym → Bool := charsEqual (compareAscii cfg)

/-- Everything C01 demands of one reported alignment `(as, ae, rs, re, score, e)` except minimality of `e`
    (placement by flags, bounds, overlap, an alignment of cost ≤ e, tolerance on the non-N aligned reference bases). -/
structure SoundResult (cfg : Cfg) (ref query : Bytes) (as ae rs re : Nat) (e : Nat) : Prop where
  h_as : as ≤ ae
  h_ae : ae ≤ ref.length
  h_rs : rs ≤ re
  h_re : re ≤ query.length
  startRef : cfg.startInRef = false → as = 0
  startQuery : cfg.startInQuery = false → rs = 0
  startOne : as = 0 ∨ rs = 0
  stopRef : cfg.stopInRef = false → ae = ref.length
  stopQuery : cfg.stopInQuery = false → re = query.length
  stopOne : ae = ref.length ∨ re = query.length
  overlap : cfg.minOverlap ≤ ae - as
  script : ∃ s, lhs s = seg (encodeRef cfg ref) as ae ∧ rhs s = seg (encodeQuery cfg query) rs re ∧
                cost cfg.eq cfg.indelCost s ≤ e
  tolerance : e ≤ cfg.thr (effLen cfg ref ref.length as ae (ae - as))

/-- hypotheses on the configuration under which the theorems hold (all true of every `Aligner` the code builds:
    `indel_cost ≥ 1` is enforced by the constructor, `thr L = ⌊fl(L·rate)⌋` is monotone, `k = <int>(rate·m) = thr m`) -/
structure Cfg.WF (cfg : Cfg) (m : Nat) : Prop where
  indel_pos : 1 ≤ cfg.indelCost
  thr_mono : ∀ a b, a ≤ b → cfg.thr a ≤ cfg.thr b
  k_eq : cfg.k = cfg.thr m

end Cutadapt.Align
