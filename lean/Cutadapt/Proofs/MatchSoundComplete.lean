import Cutadapt.Proofs.MatchSoundMin
import Cutadapt.Proofs.DpExactFound
/-! C02: completeness of `locate` and of the comparers in the documented vocabulary. -/
namespace Cutadapt.MatchSound
open Cutadapt Cutadapt.Align Cutadapt.Spec Cutadapt.Generated Cutadapt.Adapters Cutadapt.Align.Exact
open Cutadapt.Align.Sound

theorem lhs_length_le (eq : Sym → Sym → Bool) (c : Nat) (hc : 1 ≤ c) : ∀ (s : List Op),
    (lhs s).length ≤ (rhs s).length + cost eq c s
  | [] => by simp
  | .sub _ _ :: s => by
    have := lhs_length_le eq c hc s
    simp only [rhs_cons, lhs_cons, cost_cons, Op.rhs, Op.lhs, Op.cost, List.length_append, List.length_cons,
      List.length_nil]
    omega
  | .del _ :: s => by
    have := lhs_length_le eq c hc s
    simp only [rhs_cons, lhs_cons, cost_cons, Op.rhs, Op.lhs, Op.cost, List.length_append, List.length_cons,
      List.length_nil]
    omega
  | .ins _ :: s => by
    have := lhs_length_le eq c hc s
    simp only [rhs_cons, lhs_cons, cost_cons, Op.rhs, Op.lhs, Op.cost, List.length_append, List.length_cons,
      List.length_nil]
    omega

/-- the acceptance test in terms of the decoded start -/
theorem accB_of_start {cfg : Cfg} {ref : Bytes} {i : Nat} {e : Entry} {as : Nat}
    (hstart : (decode e.origin).1 = as) (hov : cfg.minOverlap ≤ i - as)
    (htol : e.cost ≤ cfg.thr (Align.effLen cfg ref ref.length as i (i - as))) :
    accB cfg ref ref.length i e = true := by
  have e1 : toNatI (-(min e.origin 0)) = (decode e.origin).1 := by rw [decode_fst]; rfl
  have e2 : toNatI ((i : Int) + min e.origin 0) = i - (decode e.origin).1 := by
    rw [decode_fst]; unfold toNatI; omega
  unfold accB
  rw [e1, e2, hstart]
  simp only [Bool.and_eq_true, decide_eq_true_eq]
  exact ⟨hov, htol⟩

theorem locate_complete (a : Adapter) (flags : Nat) (seq read : Bytes) (hlen : seq.length = a.seq.length)
    (hup : ∀ c ∈ seq, ¬ (97 ≤ c ∧ c ≤ 122)) (hmono : ∀ x y, x ≤ y → a.thr x ≤ a.thr y) (hmo : 1 ≤ a.minOverlap)
    {as ae rs re d : Nat}
    (hocc : RawSound a.adapterWildcards a.readWildcards (indelCost a) a.thr a.minOverlap seq read as ae rs re d)
    (hsr : as = 0 ∨ (alignerCfg a flags).startInRef = true) (hsq : rs = 0 ∨ (alignerCfg a flags).startInQuery = true)
    (hone : as = 0 ∨ rs = 0)
    (her : ae = seq.length ∨ (alignerCfg a flags).stopInRef = true)
    (heq : re = read.length ∨ (alignerCfg a flags).stopInQuery = true)
    (hstop : ae = seq.length ∨ re = read.length)
    (hmode : ((alignerCfg a flags).startInRef = false ∧ a.thr 0 = 0 ∧ ∀ L, 0 < L → a.thr L < L) ∨ d < indelCost a) :
    locate (alignerCfg a flags) seq read ≠ none := by
  have hwf : (alignerCfg a flags).WF seq.length := ⟨indelCost_pos a, hmono, by rw [hlen]; rfl⟩
  have hc1 : 1 ≤ indelCost a := indelCost_pos a
  obtain ⟨⟨b1, b2, b3, b4⟩, hov, ⟨s0, hl0, hr0, hc0⟩, htol⟩ := hocc
  -- the encoded script
  obtain ⟨h1, h2, h3⟩ := script_map (encR a.adapterWildcards a.readWildcards) (encQ a.adapterWildcards a.readWildcards)
    (alignerCfg a flags).eq (docMatch a.adapterWildcards a.readWildcards) (indelCost a) s0
    (fun x hx y => docMatch_eq_aligner _ _ x y (hup x (by rw [hl0] at hx; exact mem_of_mem_seg hx)))
  generalize s0.map (Op.map (encR a.adapterWildcards a.readWildcards) (encQ a.adapterWildcards a.readWildcards)) = s
    at h1 h2 h3
  have hl : lhs s = seg (encodeRef (alignerCfg a flags) seq) as ae := by
    rw [h1, hl0, encodeRef_eq_map, seg_map]; rfl
  have hr : rhs s = seg (encodeQuery (alignerCfg a flags) read) rs re := by
    rw [h2, hr0, encodeQuery_eq_map, seg_map]; rfl
  have hcs : cost (alignerCfg a flags).eq (indelCost a) s ≤ d := by rw [h3]; exact hc0
  have hll : (lhs s).length = ae - as := by rw [hl, seg_length, encodeRef_length]; omega
  have hrl : (rhs s).length = re - rs := by rw [hr, seg_length, encodeQuery_length]; omega
  -- tolerance in the model's terms
  have htol' : d ≤ (alignerCfg a flags).thr (Align.effLen (alignerCfg a flags) seq seq.length as ae (ae - as)) := by
    rw [align_effLen_eq _ _ _ _ b1 b2]; exact htol
  have hdk : d ≤ (alignerCfg a flags).k := by
    rw [hwf.k_eq]
    exact Nat.le_trans htol' (hwf.thr_mono _ _ (effLen_le _ _ _ _ _ _ (by omega)))
  -- the occurrence consumes at least one read character
  have hre : rs < re := by
    rcases hmode with ⟨_, ht0, hlt⟩ | hlt
    · apply Nat.lt_of_not_le; intro hge
      have h1' := lhs_length_le (alignerCfg a flags).eq (indelCost a) hc1 s
      rw [hll, hrl] at h1'
      have heff := spec_effLen_le a.adapterWildcards seq as ae b2
      by_cases h0 : Spec.effLen a.adapterWildcards seq as ae = 0
      · rw [h0, ht0] at htol; omega
      · have := hlt _ (Nat.pos_of_ne_zero h0); omega
    · obtain ⟨hn, _⟩ := no_indel_script (alignerCfg a flags).eq (indelCost a) s (by omega)
      rw [hll, hrl] at hn; omega
  have hmin := start_ge_minN hwf b2 b3
    (fun hf => by rcases heq with h | h; exact h; rw [hf] at h; cases h) hl hr (Nat.le_trans hcs hdk)
  have hcase : minNOf (alignerCfg a flags) seq.length read.length = 0 ∨ (alignerCfg a flags).startInQuery = true := by
    rcases hsq with h | h
    · left; omega
    · exact .inr h
  have hstart : RStart (mkCtx (alignerCfg a flags) seq read) (minNOf (alignerCfg a flags) seq.length read.length) as rs :=
    ⟨hsr, hsq, hone, hmin⟩
  have hD := D_le_cost (ctx := mkCtx (alignerCfg a flags) seq read) hstart b1
    (by show ae ≤ (encodeRef _ seq).length; rw [encodeRef_length]; exact b2) b3
    (by show re ≤ (encodeQuery _ read).length; rw [encodeQuery_length]; exact b4) hl hr
  have hD' : D (mkCtx (alignerCfg a flags) seq read) (minNOf (alignerCfg a flags) seq.length read.length) ae
      (re - minNOf (alignerCfg a flags) seq.length read.length) ≤ d := Nat.le_trans hD hcs
  have hq : Qual (alignerCfg a flags) seq read ae re := by
    refine ⟨Nat.le_trans hD' hdk, fun e hg hce => ?_⟩
    obtain ⟨g1, g2, g3, g4, se, hle, hre', hce'⟩ := hg
    have hsame : (decode e.origin).1 = as := by
      rcases hmode with ⟨hnr, _, _⟩ | hlt
      · rcases g3 with g | g
        · rcases hsr with h | h
          · omega
          · rw [hnr] at h; cases h
        · have : (alignerCfg a flags).startInRef = true := g
          rw [hnr] at this; cases this
      · obtain ⟨hn1, _⟩ := no_indel_script (alignerCfg a flags).eq (indelCost a) s (by omega)
        have hce2 : cost (mkCtx (alignerCfg a flags) seq read).eq (indelCost a) se < indelCost a := by
          have : cost (mkCtx (alignerCfg a flags) seq read).eq (mkCtx (alignerCfg a flags) seq read).cfg.indelCost se
            ≤ e.cost := hce'
          have e' : (mkCtx (alignerCfg a flags) seq read).cfg.indelCost = indelCost a := rfl
          rw [e'] at this
          omega
        obtain ⟨hn2, _⟩ := no_indel_script _ (indelCost a) se hce2
        rw [hll, hrl] at hn1
        rw [hle, hre', seg_length, seg_length] at hn2
        have e1 : (mkCtx (alignerCfg a flags) seq read).ref.length = seq.length := encodeRef_length _ _
        have e2 : (mkCtx (alignerCfg a flags) seq read).query.length = read.length := encodeQuery_length _ _
        rw [e1, e2] at hn2
        have hone' : (decode e.origin).1 = 0 ∨ (decode e.origin).2 = 0 := by
          by_cases h : 0 ≤ e.origin
          · left; rw [decode_nonneg h]
          · right; rw [decode_neg (by omega)]
        omega
    exact accB_of_start hsame hov (Nat.le_trans (Nat.le_trans hce hD') htol')
  have hrlen := rhs_length_le (alignerCfg a flags).eq (indelCost a) hc1 s
  rw [hll, hrl] at hrlen
  have hmaxN : re ≤ maxNOf (alignerCfg a flags) seq.length read.length := by
    unfold maxNOf
    rcases hsq with h | h
    · split <;> omega
    · simp only [h, Bool.not_true, Bool.false_eq_true, if_false]; exact b4
  apply locate_ne_none_of_found
  refine finalBest_found hwf hcase ?_ hq
  by_cases hren : re = read.length
  · right
    refine ⟨hren, ?_, by omega, fun hf => ?_, b2⟩
    · have := maxNOf_le (alignerCfg a flags) seq.length read.length; omega
    · rcases her with h | h
      · exact h
      · rw [hf] at h; cases h
  · left
    refine ⟨by omega, ?_, by omega, hmaxN⟩
    rcases heq with h | h
    · exact absurd h hren
    · exact h


/-! ### transporting occurrences to what the aligner is run on -/

theorem RawSound.toReverse {aw rw : Bool} {c : Nat} {thr : Nat → Nat} {mo : Nat} {seq read : Bytes}
    {as ae rs re e : Nat} (h : RawSound aw rw c thr mo seq read as ae rs re e) :
    RawSound aw rw c thr mo seq.reverse read.reverse (seq.length - ae) (seq.length - as)
      (read.length - re) (read.length - rs) e := by
  have h' : RawSound aw rw c thr mo seq.reverse.reverse read.reverse.reverse as ae rs re e := by
    rw [List.reverse_reverse, List.reverse_reverse]; exact h
  have := h'.reverse
  simpa using this

theorem RawSound.toUpperRead {aw rw : Bool} {c : Nat} {thr : Nat → Nat} {mo : Nat} {seq read : Bytes}
    {as ae rs re e : Nat} (h : RawSound aw rw c thr mo seq read as ae rs re e) :
    RawSound aw rw c thr mo seq (read.map asciiUpper) as ae rs re e := by
  obtain ⟨⟨b1, b2, b3, b4⟩, hov, ⟨s, hl, hr, hc⟩, htol⟩ := h
  refine ⟨⟨b1, b2, b3, by rw [List.length_map]; exact b4⟩, hov, ?_, htol⟩
  obtain ⟨h1, h2, h3⟩ := script_map id asciiUpper (docMatch aw rw) (docMatch aw rw) c s
    (fun x _ y => (docMatch_upper aw rw x y).symm)
  exact ⟨_, by rw [h1, hl]; simp, by rw [h2, hr, seg_map], by rw [h3]; exact hc⟩

/-- the prefix comparer reports every full-length occurrence at the start of the read that needs no indel -/
theorem comparePrefix_complete (a : Adapter) (c : Nat) (seq read : Bytes)
    (hup : ∀ x ∈ seq, ¬ (97 ≤ x ∧ x ≤ 122)) (hmo : a.minOverlap = seq.length) {re d : Nat}
    (hocc : RawSound a.adapterWildcards a.readWildcards c a.thr a.minOverlap seq read 0 seq.length 0 re d)
    (hd : d < c) : comparePrefix (cmpCfg a) seq read ≠ none := by
  obtain ⟨⟨_, _, _, b4⟩, _, ⟨s, hl, hr, hc⟩, htol⟩ := hocc
  obtain ⟨hn, hh⟩ := no_indel_script (docMatch a.adapterWildcards a.readWildcards) c s (by omega)
  rw [hl, hr, seg_zero_length] at hn hh
  rw [seg_length' _ _ _ b4] at hn
  have hre : re = seq.length := by omega
  subst hre
  unfold comparePrefix
  simp only [cmpEncodeRef_eq_map, cmpEncodeQuery_eq_map, List.length_map]
  have hmm := mismatches_map (!(cmpCfg a).wildQuery && !(cmpCfg a).wildRef) (cencR (cmpCfg a).wildRef (cmpCfg a).wildQuery)
    (encQ (cmpCfg a).wildRef (cmpCfg a).wildQuery) (docMatch a.adapterWildcards a.readWildcards)
    (fun x y => docMatch_eq_comparer a.adapterWildcards a.readWildcards x y) seq read
  rw [hmm, hamming_take]
  have hseg : seg read 0 seq.length = read.take seq.length := by simp [seg]
  rw [← hseg, cmpEffLen_eq a seq hup]
  have hmo' : (cmpCfg a).minOverlap = seq.length := hmo
  rw [hmo']
  have hthr : (cmpCfg a).thr = a.thr := rfl
  rw [hthr]
  have hmin : min seq.length read.length = seq.length := by omega
  rw [hmin]
  rw [if_neg]
  · simp
  · simp only [Bool.or_eq_true, decide_eq_true_eq, not_or, Nat.not_lt]
    exact ⟨by omega, Nat.le_refl _⟩

theorem compareSuffix_ne_none {c : CmpCfg} {seq read : Bytes} (h : comparePrefix c seq.reverse read.reverse ≠ none) :
    compareSuffix c seq read ≠ none := by
  unfold compareSuffix
  split
  · next hn => exact absurd hn h
  · simp

end Cutadapt.MatchSound
