import Cutadapt.Proofs.DpExactMain
/-! Exactness of the banded DP, part 5: an acceptable end cell within the band is always found. -/
namespace Cutadapt.Align.Exact
open Cutadapt Cutadapt.Align Cutadapt.Spec Cutadapt.Generated Cutadapt.Align.Sound

/-- end cell `(i, j)` is within the band and every cell content the DP may hold there passes the acceptance test -/
def Qual (cfg : Cfg) (ref query : Bytes) (i j : Nat) : Prop :=
  D (mkCtx cfg ref query) (minNOf cfg ref.length query.length) i (j - minNOf cfg ref.length query.length) ≤ cfg.k ∧
  ∀ e : Entry, Good (mkCtx cfg ref query) i j e →
    e.cost ≤ D (mkCtx cfg ref query) (minNOf cfg ref.length query.length) i (j - minNOf cfg ref.length query.length) →
    accB cfg ref ref.length i e = true

structure InvF (cfg : Cfg) (ref query : Bytes) (j : Nat) (s : LoopState) : Prop where
  rowFound : cfg.stopInQuery = true → ∀ j', minNOf cfg ref.length query.length < j' → j' ≤ j →
    Qual cfg ref query ref.length j' → s.best.found = true
  filled : s.done = false → minNOf cfg ref.length query.length < j → ∀ i, s.lastFilled < i → i ≤ ref.length →
    cfg.k < D (mkCtx cfg ref query) (minNOf cfg ref.length query.length) i (j - minNOf cfg ref.length query.length)

theorem shrinkLast_full (k : Nat) (col : List Entry) (m : Nat) (h : (col.getD m default).cost ≤ k) :
    shrinkLast k col m = m + 1 := by
  cases m with
  | zero => unfold shrinkLast; rw [if_neg (by omega)]
  | succ l => unfold shrinkLast; rw [if_neg (by omega)]

theorem columnLoop_F {cfg : Cfg} {ref query : Bytes} (hwf : cfg.WF ref.length) {j : Nat}
    (hj : j < query.length) {s : LoopState} (h : Inv cfg ref query j s) (hu : InvU cfg ref query j s)
    (hf : InvF cfg ref query j s) :
    InvF cfg ref query (j+1) (columnLoop cfg (compareAscii cfg) (encodeRef cfg ref) ref ref.length s
      (j+1, (encodeQuery cfg query)[j]'(by rw [encodeQuery_length]; exact hj))) := by
  have hge := hu.ge
  by_cases hd : s.done = true
  · unfold columnLoop
    simp only [hd, if_true]
    refine ⟨fun hsq j' h1 h2 hq => ?_, fun h' => (by rw [hd] at h'; cases h')⟩
    exact (h.doneBest hd).1
  · have hd' : s.done = false := by simpa using hd
    have hcol := h.col hd'
    have hmlen : (mkCtx cfg ref query).ref.length = ref.length := encodeRef_length cfg ref
    have hj' : j < (mkCtx cfg ref query).query.length := by
      show j < (encodeQuery cfg query).length
      rw [encodeQuery_length]; exact hj
    have hstep : ColInv (mkCtx cfg ref query) (j+1) s.last (stepColumn cfg (compareAscii cfg) (encodeRef cfg ref)
        (encodeQuery cfg query)[j] s.last s.col) := stepColumn_inv hwf.indel_pos hj' hcol
    have e1 : j + 1 - minNOf cfg ref.length query.length = j - minNOf cfg ref.length query.length + 1 := by omega
    have hU : ∀ i, i ≤ ref.length → UCell (mkCtx cfg ref query) (minNOf cfg ref.length query.length) i
        (j + 1 - minNOf cfg ref.length query.length)
        ((stepColumn cfg (compareAscii cfg) (encodeRef cfg ref) (encodeQuery cfg query)[j] s.last s.col).getD i default) := by
      intro i hi
      rw [e1]
      exact stepColumn_U (ctx := mkCtx cfg ref query) (by omega) hj' hcol (hu.u hd') i (by rw [hmlen]; exact hi)
    have hhigh : ∀ i, s.last < i → i ≤ ref.length → cfg.k <
        D (mkCtx cfg ref query) (minNOf cfg ref.length query.length) i (j + 1 - minNOf cfg ref.length query.length) := by
      intro i h1 h2
      rw [e1]
      exact D_high_beyond (hu.u hd') i h1 (by rw [hmlen]; exact h2)
    -- the last-row event of column j+1
    have hrow : cfg.stopInQuery = true → Qual cfg ref query ref.length (j+1) →
        (columnLoop cfg (compareAscii cfg) (encodeRef cfg ref) ref ref.length s
          (j+1, (encodeQuery cfg query)[j]'(by rw [encodeQuery_length]; exact hj))).best.found = true := by
      intro hsq ⟨hq1, hq2⟩
      have hlast : s.last = ref.length := by
        have := h.last_le
        apply Nat.le_antisymm this
        apply Nat.le_of_not_lt; intro hlt
        have := hhigh ref.length hlt (Nat.le_refl _)
        omega
      have hcost := hU ref.length (Nat.le_refl _) hq1
      have hgood := (hstep.cells ref.length (by rw [hmlen]; exact Nat.le_refl _)).1
        (by show _ ≤ cfg.k; omega)
      have hacc := hq2 _ hgood hcost
      rw [columnLoop_eq _ _ _ _ _ _ _ _ hd']
      generalize stepColumn cfg (compareAscii cfg) (encodeRef cfg ref) (encodeQuery cfg query)[j] s.last s.col = col'
        at hcost hacc ⊢
      rw [hlast]
      rw [shrinkLast_full _ _ _ (by omega)]
      simp only [Nat.lt_irrefl, if_false, hsq, if_true]
      unfold rowUpd
      rw [hacc]
      cases hfd : s.best.found
      · simp
      · simp only [Bool.not_true, Bool.false_or, Bool.true_and]
        split
        · rfl
        · exact hfd
    have hmono : s.best.found = true →
        (columnLoop cfg (compareAscii cfg) (encodeRef cfg ref) ref ref.length s
          (j+1, (encodeQuery cfg query)[j]'(by rw [encodeQuery_length]; exact hj))).best.found = true := by
      intro hfd
      rw [columnLoop_eq _ _ _ _ _ _ _ _ hd']
      split
      · exact hfd
      · split
        · split
          · rfl
          · exact hfd
        · exact hfd
    refine ⟨fun hsq j' h1 h2 hq => ?_, fun hdn _ i h1 h2 => ?_⟩
    · by_cases hjj : j' = j + 1
      · subst hjj; exact hrow hsq hq
      · exact hmono (hf.rowFound hsq j' h1 (by omega) hq)
    · have hlf : (columnLoop cfg (compareAscii cfg) (encodeRef cfg ref) ref ref.length s
          (j+1, (encodeQuery cfg query)[j]'(by rw [encodeQuery_length]; exact hj))).lastFilled = s.last := by
        rw [columnLoop_eq _ _ _ _ _ _ _ _ hd']
        split
        · rfl
        · split
          · split <;> rfl
          · rfl
      rw [hlf] at h1
      exact hhigh i h1 h2


/-! ### the last-column search finds an acceptable row -/

theorem lcsStep_found_mono (cfg : Cfg) (ref : Bytes) (m n : Nat) (col : List Entry) (so : Int) (i : Nat)
    (best : Best) (h : best.found = true) : (lcsStep cfg ref m n col so i best).found = true := by
  unfold lcsStep; split
  · rfl
  · exact h

theorem lcsStep_found_of_acc (cfg : Cfg) (ref : Bytes) (m n : Nat) (col : List Entry) (so : Int) (i : Nat)
    (best : Best) (h : accB cfg ref m i (col.getD i default) = true) :
    (lcsStep cfg ref m n col so i best).found = true := by
  cases hf : best.found
  · unfold lcsStep colUpd
    rw [h, hf]; simp
  · exact lcsStep_found_mono _ _ _ _ _ _ _ _ hf

theorem go_found_mono (cfg : Cfg) (ref : Bytes) (m n : Nat) (col : List Entry) (so : Int) (firstI fuel i : Nat)
    (best : Best) (h : best.found = true) :
    (lastColumnSearch.go cfg ref m n col so firstI fuel i best).found = true :=
  go_ind cfg ref m n col so firstI i (fun b => b.found = true) (fun _ _ _ _ => rfl) fuel i best (Nat.le_refl _) h

theorem go_found (cfg : Cfg) (ref : Bytes) (m n : Nat) (col : List Entry) (so : Int) (firstI : Nat) :
    ∀ (fuel i : Nat) (best : Best),
    (∃ r, firstI ≤ r ∧ r ≤ i ∧ accB cfg ref m r (col.getD r default) = true) → i < fuel →
    (lastColumnSearch.go cfg ref m n col so firstI fuel i best).found = true
  | 0, _, _, _, h => by omega
  | fuel+1, i, best, ⟨r, h1, h2, h3⟩, hf => by
    rw [go_succ]
    rw [if_neg (by omega)]
    by_cases hri : r = i
    · subst hri
      have := lcsStep_found_of_acc cfg ref m n col so r best h3
      split
      · exact this
      · exact go_found_mono _ _ _ _ _ _ _ _ _ _ this
    · have hi0 : (i == 0) = false := by
        cases hh : i == 0
        · rfl
        · have : i = 0 := by simpa using hh
          omega
      rw [hi0]
      simp only [Bool.false_eq_true, if_false]
      exact go_found cfg ref m n col so firstI fuel (i-1) _ ⟨r, h1, by omega, h3⟩ (by omega)

theorem initState_F (cfg : Cfg) (ref query : Bytes) :
    InvF cfg ref query (minNOf cfg ref.length query.length) (initState cfg ref.length query.length) :=
  ⟨fun _ j' h1 h2 _ => by omega, fun _ h => by omega⟩

/-- **completeness of the search**: an end cell that the search visits (last row of a processed column when the
    query end may be skipped; any admissible row of the last column), lies within the band and is acceptable whatever
    start the DP remembers there, leads to a reported match -/
theorem finalBest_found {cfg : Cfg} {ref query : Bytes} (hwf : cfg.WF ref.length)
    (hcase : minNOf cfg ref.length query.length = 0 ∨ cfg.startInQuery = true) {i j : Nat}
    (hpos : (i = ref.length ∧ cfg.stopInQuery = true ∧ minNOf cfg ref.length query.length < j ∧
              j ≤ maxNOf cfg ref.length query.length) ∨
            (j = query.length ∧ maxNOf cfg ref.length query.length = query.length ∧
              minNOf cfg ref.length query.length < query.length ∧ (cfg.stopInRef = false → i = ref.length) ∧
              i ≤ ref.length))
    (hq : Qual cfg ref query i j) : (finalBest cfg ref query).found = true := by
  rw [finalBest_eq]
  obtain ⟨hP, _⟩ := finalState_ind cfg ref query
    (fun j s => Inv cfg ref query j s ∧ InvU cfg ref query j s ∧ InvF cfg ref query j s)
    ⟨initState_inv hwf, initState_U hwf hcase, initState_F cfg ref query⟩
    (fun _ _ hj _ _ hP => ⟨columnLoop_inv hwf hj hP.1, columnLoop_U hwf hj hP.1 hP.2.1,
      columnLoop_F hwf hj hP.1 hP.2.1 hP.2.2⟩)
  have hmin := minNOf_le cfg ref.length query.length
  have hmax := maxNOf_le cfg ref.length query.length
  rcases hpos with ⟨hi, hsq, hj1, hj2⟩ | ⟨hj, hmn, hj0, hsr, hi⟩
  · subst hi
    obtain ⟨_, _, hF⟩ := hP (by omega)
    have hfound := hF.rowFound hsq j hj1 hj2 hq
    split
    · unfold lastColumnSearch
      exact go_found_mono _ _ _ _ _ _ _ _ _ _ hfound
    · exact hfound
  · subst hj
    obtain ⟨hinv, hU, hF⟩ := hP (by omega)
    rw [hmn] at hinv hU hF
    rw [if_pos (by simp [hmn])]
    unfold lastColumnSearch
    by_cases hd : (finalState cfg ref query).done = true
    · obtain ⟨hfound, hsc⟩ := hinv.doneBest hd
      exact go_found_mono _ _ _ _ _ _ _ _ _ _ hfound
    · have hd' : (finalState cfg ref query).done = false := by simpa using hd
      have hmlen : (mkCtx cfg ref query).ref.length = ref.length := encodeRef_length cfg ref
      have hil : i ≤ (finalState cfg ref query).lastFilled := by
        apply Nat.le_of_not_lt; intro hlt
        have := hF.filled hd' hj0 i hlt hi
        have := hq.1
        omega
      have hcost := (hU.u hd').u i (by rw [hmlen]; exact hi) hq.1
      have hgood := ((hinv.col hd').cells i (by rw [hmlen]; exact hi)).1 (by show _ ≤ cfg.k; have := hq.1; omega)
      have hacc := hq.2 _ hgood hcost
      refine go_found _ _ _ _ _ _ _ _ _ _ ⟨i, ?_, hil, hacc⟩ (Nat.lt_succ_self _)
      cases hs : cfg.stopInRef
      · simp only [Bool.false_eq_true, if_false]; have := hsr hs; omega
      · simp

theorem locate_ne_none_of_found {cfg : Cfg} {ref query : Bytes} (h : (finalBest cfg ref query).found = true) :
    locate cfg ref query ≠ none := by
  rw [locate_eq, h]; simp

end Cutadapt.Align.Exact
