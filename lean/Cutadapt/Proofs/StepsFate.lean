import Cutadapt.Proofs.StepsCore
/-! What the closing events of a read say about its fate (used by C04, C05, C11, C15). -/
namespace Cutadapt.Steps
open Cutadapt Cutadapt.Adapters

/-- the writers of the last step -/
def lastWriters (steps : List Step) : List Nat := (steps.getLast?.map Step.writers).getD []

theorem getLast?_of_getElem? {l : List α} {k : Nat} {x : α} (h : l[k]? = some x) (hk : k + 1 = l.length) :
    l.getLast? = some x := by
  rw [List.getLast?_eq_getElem?]
  have : l.length - 1 = k := by omega
  rw [this, h]

theorem mem_texts_tail_of_not_text {texts tail : List Event} {ev : Event} (htx : ∀ e ∈ texts, isText e = true)
    (hne : isText ev = false) (h : ev ∈ texts ++ tail) : ev ∈ tail := by
  rcases List.mem_append.1 h with h | h
  · have := htx ev h; simp [this] at hne
  · exact h

theorem filter_write_texts {texts : List Event} (htx : ∀ e ∈ texts, isText e = true) : texts.filter isWrite = [] := by
  rw [List.filter_eq_nil_iff]
  intro e he
  simp [text_not_write (htx e he)]

/-- Everything C04 says about one read, read off the shape `texts ++ tail` of the events appended by a terminal step list. -/
theorem fate_of_tail {steps : List Step} {idx : Nat} {r1 : Read} {r2 : Option Read} {texts tail : List Event}
    (htx : ∀ ev ∈ texts, isText ev = true) (ht : Tail steps idx r1 r2 tail) :
    (texts ++ tail).countP isFate = 1 ∧ (texts ++ tail).countP isWrite ≤ 1 ∧ (texts ++ tail).countP isInput = 0 ∧
    (∀ k l1 l2, Event.sinkStat k l1 l2 ∈ texts ++ tail →
        k + 1 = idx + steps.length ∧ l1 = r1.len ∧ l2 = r2.map Read.len ∧
        ∃ w, w ∈ lastWriters steps ∧ (texts ++ tail).filter isWrite = [.write w r1 r2]) ∧
    (∀ k, Event.filtered k ∈ texts ++ tail → idx ≤ k ∧
        ∃ s, steps[k - idx]? = some s ∧ s.filterIdent.isSome = true ∧
          ∀ w a b, Event.write w a b ∈ texts ++ tail → a = r1 ∧ b = r2 ∧ ∃ p1 p2 mode, s = .filter p1 p2 mode (some w)) := by
  refine ⟨?_, ?_, ?_, ?_, ?_⟩
  · rw [List.countP_append, countP_of_all_false (fun x hx => text_not_fate (htx x hx)), ht.fate_count]
  · rw [List.countP_append, countP_of_all_false (fun x hx => text_not_write (htx x hx))]
    simpa using ht.write_count
  · rw [List.countP_append, countP_of_all_false (fun x hx => text_not_input (htx x hx)),
      countP_of_all_false ht.no_input]
  · intro k l1 l2 hmem
    have hmem := mem_texts_tail_of_not_text htx rfl hmem
    rw [List.filter_append, filter_write_texts htx, List.nil_append]
    cases ht with
    | written k' s w e hk hl hf hw he =>
      have hlast : lastWriters steps = s.writers := by
        simp [lastWriters, getLast?_of_getElem? hk hl]
      rcases he with rfl | rfl
      all_goals
        simp only [List.mem_cons, Event.sinkStat.injEq, List.not_mem_nil, or_false, reduceCtorEq, false_or] at hmem
        obtain ⟨rfl, rfl, rfl⟩ := hmem
        exact ⟨by omega, rfl, rfl, w, hlast ▸ hw, rfl⟩
    | filtered k' s w hk hi hs =>
      cases w <;> simp [redir] at hmem
  · intro k hmem
    have hmem := mem_texts_tail_of_not_text htx rfl hmem
    cases ht with
    | written k' s w e hk hl hf hw he =>
      rcases he with rfl | rfl <;> simp at hmem
    | filtered k' s w hk hi hs =>
      have hk' : k = idx + k' := by
        cases w <;> simpa [redir] using hmem
      subst hk'
      refine ⟨by omega, s, by simpa using hk, hi, ?_⟩
      intro w' a b hw'
      have hw' := mem_texts_tail_of_not_text htx rfl hw'
      cases w with
      | none => simp [redir] at hw'
      | some w0 =>
        simp only [redir, List.mem_cons, reduceCtorEq, Event.write.injEq, List.not_mem_nil, or_false, false_or] at hw'
        obtain ⟨rfl, rfl, rfl⟩ := hw'
        rcases hs with hs | ⟨h1, -⟩
        · exact ⟨rfl, rfl, hs⟩
        · simp at h1

/-! ## The log of one read -/

/-- Shape of the events of one read (pair) in a pipeline with a terminal step list: the `input` event, counter events of
    the modifiers, lines for the rest/info/wildcard files, and the closing events. `r1`, `r2` = the modified read (pair). -/
def ReadLog (steps : List Step) (len1 : Nat) (len2 : Option Nat) (r1 : Read) (r2 : Option Read) (evs : List Event) : Prop :=
  ∃ cnt texts tail, evs = Event.input len1 len2 :: (cnt ++ (texts ++ tail)) ∧ (∀ ev ∈ cnt, isCounter ev = true) ∧
    (∀ ev ∈ texts, isText ev = true) ∧ Tail steps 0 r1 r2 tail

theorem processReadS_log {p : SinglePipeline} {read : Read} {evs : List Event} (ht : Terminal p.steps)
    (h : processReadS p read = .ok evs) :
    ∃ r' i' evs0, runModsS (namesOf p.ads) p.mods read { original := read } [Event.input read.len none] = .ok (r', i', evs0) ∧
      runStepsS p.ads p.steps 0 r' i' evs0 = .ok evs ∧ ReadLog p.steps read.len none r' none evs := by
  unfold processReadS at h
  split at h
  · simp at h
  · rename_i r' i' evs0 hm
    refine ⟨r', i', evs0, hm, h, ?_⟩
    obtain ⟨cnt, rfl, hc⟩ := runModsS_counter hm
    obtain ⟨pre, last, hsteps, hp, hl⟩ := ht
    rw [hsteps] at h ⊢
    obtain ⟨texts, tail, rfl, htx, htl⟩ := runStepsS_terminal hp hl h
    exact ⟨cnt, texts, tail, by simp, hc, htx, htl⟩

theorem processReadP_log {p : PairedPipeline} {read : Read × Read} {evs : List Event} (ht : Terminal p.steps)
    (h : processReadP p read = .ok evs) :
    ∃ r' i' evs0, runModsP p.ads1 p.ads2 p.mods read ({ original := read.1 }, { original := read.2 })
        [Event.input read.1.len (some read.2.len)] = .ok (r', i', evs0) ∧
      runStepsP p.ads1 p.ads2 p.steps 0 r' i' evs0 = .ok evs ∧
      ReadLog p.steps read.1.len (some read.2.len) r'.1 (some r'.2) evs := by
  unfold processReadP at h
  split at h
  · simp at h
  · rename_i r' i' evs0 hm
    refine ⟨r', i', evs0, hm, h, ?_⟩
    obtain ⟨cnt, rfl, hc⟩ := runModsP_counter hm
    obtain ⟨pre, last, hsteps, hp, hl⟩ := ht
    rw [hsteps] at h ⊢
    obtain ⟨r1', r2'⟩ := r'
    obtain ⟨texts, tail, rfl, htx, htl⟩ := runStepsP_terminal hp hl h
    exact ⟨cnt, texts, tail, by simp, hc, htx, htl⟩

/-! ## Totals of one read -/

def evFinalW (W : List Nat) : Event → Nat
  | .write w _ _ => if w ∈ W then 1 else 0
  | _ => 0
def evFinalBp1 (W : List Nat) : Event → Nat
  | .write w a _ => if w ∈ W then a.len else 0
  | _ => 0
def evFinalBp2 (W : List Nat) : Event → Nat
  | .write w _ b => if w ∈ W then (b.map Read.len).getD 0 else 0
  | _ => 0

/-- a contribution that ignores counter events and text lines -/
def Structural (c : Event → Nat) : Prop := ∀ ev, isCounter ev = true ∨ isText ev = true → c ev = 0

theorem structural_evN : Structural evN := by intro ev h; cases ev <;> simp_all [isCounter, isText, evN]
theorem structural_evBp1 : Structural evBp1 := by intro ev h; cases ev <;> simp_all [isCounter, isText, evBp1]
theorem structural_evBp2 : Structural evBp2 := by intro ev h; cases ev <;> simp_all [isCounter, isText, evBp2]
theorem structural_evWritten : Structural evWritten := by intro ev h; cases ev <;> simp_all [isCounter, isText, evWritten]
theorem structural_evWrittenBp1 : Structural evWrittenBp1 := by
  intro ev h; cases ev <;> simp_all [isCounter, isText, evWrittenBp1]
theorem structural_evWrittenBp2 : Structural evWrittenBp2 := by
  intro ev h; cases ev <;> simp_all [isCounter, isText, evWrittenBp2]
theorem structural_evFiltered : Structural evFiltered := by intro ev h; cases ev <;> simp_all [isCounter, isText, evFiltered]
theorem structural_evFilteredAt (k : Nat) : Structural (evFilteredAt k) := by
  intro ev h; cases ev <;> simp_all [isCounter, isText, evFilteredAt]
theorem structural_evFinalW (W : List Nat) : Structural (evFinalW W) := by
  intro ev h; cases ev <;> simp_all [isCounter, isText, evFinalW]
theorem structural_evFinalBp1 (W : List Nat) : Structural (evFinalBp1 W) := by
  intro ev h; cases ev <;> simp_all [isCounter, isText, evFinalBp1]
theorem structural_evFinalBp2 (W : List Nat) : Structural (evFinalBp2 W) := by
  intro ev h; cases ev <;> simp_all [isCounter, isText, evFinalBp2]

theorem total_log {c : Event → Nat} (hc : Structural c) {cnt texts tail : List Event} (e0 : Event)
    (h1 : ∀ ev ∈ cnt, isCounter ev = true) (h2 : ∀ ev ∈ texts, isText ev = true) :
    total c (e0 :: (cnt ++ (texts ++ tail))) = c e0 + total c tail := by
  rw [total_cons, total_append, total_append, total_eq_zero (fun ev h => hc ev (.inl (h1 ev h))),
    total_eq_zero (fun ev h => hc ev (.inr (h2 ev h)))]
  omega

/-- no pass-through step (filter with redirect file) shares a record writer with the last step -/
def RedirectsApart (steps : List Step) : Prop :=
  ∀ s ∈ steps, s.isPass = true → ∀ w ∈ s.writers, w ∉ lastWriters steps

theorem Tail.totals {steps : List Step} {idx : Nat} {r1 : Read} {r2 : Option Read} {tail : List Event}
    (h : Tail steps idx r1 r2 tail) :
    total evN tail = 0 ∧ total evBp1 tail = 0 ∧ total evBp2 tail = 0 ∧
    total evWritten tail + total evFiltered tail = 1 ∧
    (RedirectsApart steps →
      total evWritten tail = total (evFinalW (lastWriters steps)) tail ∧
      total evWrittenBp1 tail = total (evFinalBp1 (lastWriters steps)) tail ∧
      total evWrittenBp2 tail = total (evFinalBp2 (lastWriters steps)) tail) := by
  cases h with
  | written k s w e hk hl hf hw he =>
    have hlast : lastWriters steps = s.writers := by simp [lastWriters, getLast?_of_getElem? hk hl]
    rw [hlast]
    rcases he with rfl | rfl <;>
      simp [total, evN, evBp1, evBp2, evWritten, evFiltered, evFinalW, evFinalBp1, evFinalBp2, evWrittenBp1,
        evWrittenBp2, hw]
  | filtered k s w hk hi hs =>
    cases w with
    | none => simp [total, redir, evN, evBp1, evBp2, evWritten, evFiltered, evFinalW, evFinalBp1, evFinalBp2,
        evWrittenBp1, evWrittenBp2]
    | some w =>
      refine ⟨rfl, rfl, rfl, rfl, ?_⟩
      intro hd
      rcases hs with ⟨p1, p2, mode, rfl⟩ | ⟨h1, -⟩
      · have hmem : Step.filter p1 p2 mode (some w) ∈ steps := List.mem_of_getElem? hk
        have := hd _ hmem rfl w (by simp [Step.writers])
        simp [total, redir, evWritten, evFinalW, evFinalBp1, evFinalBp2, evWrittenBp1, evWrittenBp2, this]
      · simp at h1

theorem ReadLog.totals {steps : List Step} {len1 : Nat} {len2 : Option Nat} {r1 : Read} {r2 : Option Read}
    {evs : List Event} (h : ReadLog steps len1 len2 r1 r2 evs) :
    total evN evs = 1 ∧ total evBp1 evs = len1 ∧ total evBp2 evs = len2.getD 0 ∧
    total evWritten evs + total evFiltered evs = 1 ∧
    (RedirectsApart steps →
      total evWritten evs = total (evFinalW (lastWriters steps)) evs ∧
      total evWrittenBp1 evs = total (evFinalBp1 (lastWriters steps)) evs ∧
      total evWrittenBp2 evs = total (evFinalBp2 (lastWriters steps)) evs) := by
  obtain ⟨cnt, texts, tail, rfl, hc, htx, htl⟩ := h
  obtain ⟨t1, t2, t3, t4, t5⟩ := htl.totals
  refine ⟨?_, ?_, ?_, ?_, ?_⟩
  · rw [total_log structural_evN _ hc htx, t1]; rfl
  · rw [total_log structural_evBp1 _ hc htx, t2]; rfl
  · rw [total_log structural_evBp2 _ hc htx, t3]; rfl
  · rw [total_log structural_evWritten _ hc htx, total_log structural_evFiltered _ hc htx]
    simpa [evWritten, evFiltered] using t4
  · intro hd
    obtain ⟨u1, u2, u3⟩ := t5 hd
    rw [total_log structural_evWritten _ hc htx, total_log structural_evWrittenBp1 _ hc htx,
      total_log structural_evWrittenBp2 _ hc htx, total_log (structural_evFinalW _) _ hc htx,
      total_log (structural_evFinalBp1 _) _ hc htx, total_log (structural_evFinalBp2 _) _ hc htx, u1, u2, u3]
    simp [evWritten, evWrittenBp1, evWrittenBp2, evFinalW, evFinalBp1, evFinalBp2]

/-- lifting a per-read total to a whole error-free run -/
theorem total_run {f : α → Except Err (List Event)} {reads : List α} {evs : List Event}
    (h : runReads f reads [] = (evs, none)) (c : Event → Nat) :
    total c evs = (reads.map (fun r => total c (evsOf f r))).sum := by
  rw [(run_is_concat h).1, total_flatten, List.map_map]
  rfl

theorem sum_map_congr {l : List α} {f g : α → Nat} (h : ∀ x ∈ l, f x = g x) : (l.map f).sum = (l.map g).sum := by
  rw [List.map_congr_left h]

theorem sum_map_one (l : List α) : (l.map (fun _ => 1)).sum = l.length := by
  induction l with
  | nil => rfl
  | cons a l ih => simp [ih]; omega

/-! ## `summarize` is additive -/

/-- `s` is the componentwise sum of `parts` (association lists are compared through `getCount`) -/
structure IsSum (s : Summary) (parts : List Summary) : Prop where
  n : s.n = (parts.map (·.n)).sum
  bp1 : s.bp1 = (parts.map (·.bp1)).sum
  bp2 : s.bp2 = (parts.map (·.bp2)).sum
  written : s.written = (parts.map (·.written)).sum
  writtenBp1 : s.writtenBp1 = (parts.map (·.writtenBp1)).sum
  writtenBp2 : s.writtenBp2 = (parts.map (·.writtenBp2)).sum
  qualTrimmed1 : s.qualTrimmed1 = (parts.map (·.qualTrimmed1)).sum
  qualTrimmed2 : s.qualTrimmed2 = (parts.map (·.qualTrimmed2)).sum
  withAdapters1 : s.withAdapters1 = (parts.map (·.withAdapters1)).sum
  withAdapters2 : s.withAdapters2 = (parts.map (·.withAdapters2)).sum
  reverseComplemented : s.reverseComplemented = (parts.map (·.reverseComplemented)).sum
  filteredAt : ∀ k, getCount k s.filteredByStep = (parts.map (fun t => getCount k t.filteredByStep)).sum
  filteredTotal : sumVals s.filteredByStep = (parts.map (fun t => sumVals t.filteredByStep)).sum
  polyA1 : ∀ k, getCount k s.polyA1 = (parts.map (fun t => getCount k t.polyA1)).sum
  polyA2 : ∀ k, getCount k s.polyA2 = (parts.map (fun t => getCount k t.polyA2)).sum

theorem flatten_field (proj : Summary → Nat) (c : Event → Nat) (hp : ∀ evs, proj (summarize evs) = total c evs)
    (L : List (List Event)) : proj (summarize L.flatten) = ((L.map summarize).map proj).sum := by
  rw [hp, total_flatten, List.map_map]
  exact sum_map_congr (fun l _ => (hp l).symm)

theorem summarize_flatten (L : List (List Event)) : IsSum (summarize L.flatten) (L.map summarize) where
  n := flatten_field (·.n) evN (fun e => (summarize_is e).n) L
  bp1 := flatten_field (·.bp1) evBp1 (fun e => (summarize_is e).bp1) L
  bp2 := flatten_field (·.bp2) evBp2 (fun e => (summarize_is e).bp2) L
  written := flatten_field (·.written) evWritten (fun e => (summarize_is e).written) L
  writtenBp1 := flatten_field (·.writtenBp1) evWrittenBp1 (fun e => (summarize_is e).writtenBp1) L
  writtenBp2 := flatten_field (·.writtenBp2) evWrittenBp2 (fun e => (summarize_is e).writtenBp2) L
  qualTrimmed1 := flatten_field (·.qualTrimmed1) evQual1 (fun e => (summarize_is e).qualTrimmed1) L
  qualTrimmed2 := flatten_field (·.qualTrimmed2) evQual2 (fun e => (summarize_is e).qualTrimmed2) L
  withAdapters1 := flatten_field (·.withAdapters1) evWith1 (fun e => (summarize_is e).withAdapters1) L
  withAdapters2 := flatten_field (·.withAdapters2) evWith2 (fun e => (summarize_is e).withAdapters2) L
  reverseComplemented := flatten_field (·.reverseComplemented) evRevComp (fun e => (summarize_is e).reverseComplemented) L
  filteredAt := fun k =>
    flatten_field (fun s => getCount k s.filteredByStep) (evFilteredAt k) (fun e => (summarize_is e).filteredAt k) L
  filteredTotal := flatten_field (fun s => sumVals s.filteredByStep) evFiltered (fun e => (summarize_is e).filteredTotal) L
  polyA1 := fun k => flatten_field (fun s => getCount k s.polyA1) (evPolyA1 k) (fun e => (summarize_is e).polyA1 k) L
  polyA2 := fun k => flatten_field (fun s => getCount k s.polyA2) (evPolyA2 k) (fun e => (summarize_is e).polyA2 k) L

theorem summarize_run {f : α → Except Err (List Event)} {reads : List α} {evs : List Event}
    (h : runReads f reads [] = (evs, none)) : IsSum (summarize evs) (reads.map (fun r => summarize (evsOf f r))) := by
  have := summarize_flatten (reads.map (evsOf f))
  rw [← (run_is_concat h).1, List.map_map] at this
  exact this

theorem total_indicator {c : Event → Nat} {p : Event → Bool} (h : ∀ ev, c ev = if p ev then 1 else 0)
    (evs : List Event) : total c evs = evs.countP p := by
  induction evs with
  | nil => rfl
  | cons e es ih =>
    rw [total_cons, ih, List.countP_cons, h]
    omega

/-! ## What the record files contain -/

/-- the records (R1, R2?) that the writers `W` received, in order -/
def recordsTo (W : List Nat) (evs : List Event) : List (Read × Option Read) :=
  evs.filterMap fun
    | .write w a b => if w ∈ W then some (a, b) else none
    | _ => none

theorem recordsTo_append (W : List Nat) (a b : List Event) : recordsTo W (a ++ b) = recordsTo W a ++ recordsTo W b := by
  simp [recordsTo, List.filterMap_append]

theorem total_finalW (W : List Nat) (evs : List Event) : total (evFinalW W) evs = (recordsTo W evs).length := by
  induction evs with
  | nil => rfl
  | cons e es ih =>
    rw [total_cons, ih]
    cases e <;> simp [recordsTo, evFinalW, List.filterMap_cons]
    split <;> simp <;> omega

theorem total_finalBp1 (W : List Nat) (evs : List Event) :
    total (evFinalBp1 W) evs = ((recordsTo W evs).map (·.1.len)).sum := by
  induction evs with
  | nil => rfl
  | cons e es ih =>
    rw [total_cons, ih]
    cases e <;> simp [recordsTo, evFinalBp1, List.filterMap_cons]
    split <;> simp

theorem total_finalBp2 (W : List Nat) (evs : List Event) :
    total (evFinalBp2 W) evs = ((recordsTo W evs).map (fun x => (x.2.map Read.len).getD 0)).sum := by
  induction evs with
  | nil => rfl
  | cons e es ih =>
    rw [total_cons, ih]
    cases e <;> simp [recordsTo, evFinalBp2, List.filterMap_cons]
    split <;> simp

def isSinkStat : Event → Bool
  | .sinkStat .. => true
  | _ => false

/-- the figures of a whole error-free run in which every read has a log of the `ReadLog` shape -/
theorem counts_of_logs {f : α → Except Err (List Event)} {reads : List α} {evs : List Event} {steps : List Step}
    {l1 : α → Nat} {l2 : α → Option Nat}
    (hlog : ∀ r e, f r = .ok e → ∃ r1 r2, ReadLog steps (l1 r) (l2 r) r1 r2 e)
    (h : runReads f reads [] = (evs, none)) :
    (summarize evs).n = reads.length ∧
    (summarize evs).n = (summarize evs).written + sumVals (summarize evs).filteredByStep ∧
    (summarize evs).written = evs.countP isSinkStat ∧
    (summarize evs).bp1 = (reads.map l1).sum ∧
    (summarize evs).bp2 = (reads.map (fun r => (l2 r).getD 0)).sum ∧
    (RedirectsApart steps →
      (summarize evs).written = (recordsTo (lastWriters steps) evs).length ∧
      (summarize evs).writtenBp1 = ((recordsTo (lastWriters steps) evs).map (·.1.len)).sum ∧
      (summarize evs).writtenBp2 = ((recordsTo (lastWriters steps) evs).map (fun x => (x.2.map Read.len).getD 0)).sum) := by
  have hok := (run_is_concat h).2
  have hl : ∀ r ∈ reads, ∃ r1 r2, ReadLog steps (l1 r) (l2 r) r1 r2 (evsOf f r) := fun r hr => hlog r _ (hok r hr)
  have S := summarize_is evs
  have hn : total evN evs = reads.length := by
    rw [total_run h, ← sum_map_one reads]
    exact sum_map_congr (fun r hr => by obtain ⟨r1, r2, hl⟩ := hl r hr; exact hl.totals.1)
  have hwf : total evWritten evs + total evFiltered evs = reads.length := by
    rw [total_run h, total_run h, ← sum_map_one reads]
    have : ∀ r ∈ reads, total evWritten (evsOf f r) + total evFiltered (evsOf f r) = 1 := fun r hr => by
      obtain ⟨r1, r2, hl⟩ := hl r hr; exact hl.totals.2.2.2.1
    clear hn S h hok hl
    induction reads with
    | nil => rfl
    | cons a l ih =>
      have h1 := this a (by simp)
      have h2 := ih (fun r hr => this r (by simp [hr]))
      simp only [List.map_cons, List.sum_cons] at h2 ⊢
      omega
  refine ⟨by rw [S.n, hn], by rw [S.n, S.written, S.filteredTotal, hn, hwf], ?_, ?_, ?_, ?_⟩
  · rw [S.written]
    exact total_indicator (fun ev => by cases ev <;> rfl) evs
  · rw [S.bp1, total_run h]
    exact sum_map_congr (fun r hr => by obtain ⟨r1, r2, hl⟩ := hl r hr; exact hl.totals.2.1)
  · rw [S.bp2, total_run h]
    exact sum_map_congr (fun r hr => by obtain ⟨r1, r2, hl⟩ := hl r hr; exact hl.totals.2.2.1)
  · intro hd
    rw [S.written, S.writtenBp1, S.writtenBp2, ← total_finalW, ← total_finalBp1, ← total_finalBp2]
    refine ⟨?_, ?_, ?_⟩
    · rw [total_run h, total_run h]
      exact sum_map_congr (fun r hr => by obtain ⟨r1, r2, hl⟩ := hl r hr; exact (hl.totals.2.2.2.2 hd).1)
    · rw [total_run h, total_run h]
      exact sum_map_congr (fun r hr => by obtain ⟨r1, r2, hl⟩ := hl r hr; exact (hl.totals.2.2.2.2 hd).2.1)
    · rw [total_run h, total_run h]
      exact sum_map_congr (fun r hr => by obtain ⟨r1, r2, hl⟩ := hl r hr; exact (hl.totals.2.2.2.2 hd).2.2)

theorem mem_recordsTo {W : List Nat} {evs : List Event} {x : Read × Option Read} (h : x ∈ recordsTo W evs) :
    ∃ w ∈ W, Event.write w x.1 x.2 ∈ evs := by
  simp only [recordsTo, List.mem_filterMap] at h
  obtain ⟨ev, hev, hx⟩ := h
  cases ev with
  | write w a b =>
    simp only at hx
    split at hx
    · rename_i hw
      simp only [Option.some.injEq] at hx
      subst hx
      exact ⟨w, hw, hev⟩
    · simp at hx
  | _ => simp at hx

theorem Tail.writes {steps : List Step} {idx : Nat} {r1 : Read} {r2 : Option Read} {tail : List Event}
    (h : Tail steps idx r1 r2 tail) {w : Nat} {a : Read} {b : Option Read} (hw : Event.write w a b ∈ tail) :
    a = r1 ∧ b = r2 := by
  cases h with
  | written k s w' e hk hl hf hw' he =>
    rcases he with rfl | rfl <;> simp at hw <;> simp [hw]
  | filtered k s w' hk hi hs =>
    cases w' <;> simp [redir] at hw
    simp [hw]

/-- every record written for a read (pair) is the modified read (pair) itself -/
theorem ReadLog.writes {steps : List Step} {len1 : Nat} {len2 : Option Nat} {r1 : Read} {r2 : Option Read}
    {evs : List Event} (h : ReadLog steps len1 len2 r1 r2 evs) {w : Nat} {a : Read} {b : Option Read}
    (hw : Event.write w a b ∈ evs) : a = r1 ∧ b = r2 := by
  obtain ⟨cnt, texts, tail, rfl, hc, htx, htl⟩ := h
  simp only [List.mem_cons, reduceCtorEq, false_or, List.mem_append] at hw
  rcases hw with hw | hw | hw
  · have := hc _ hw; simp [isCounter] at this
  · have := htx _ hw; simp [isText] at this
  · exact htl.writes hw

theorem mem_run {f : α → Except Err (List Event)} {reads : List α} {evs : List Event}
    (h : runReads f reads [] = (evs, none)) {ev : Event} (hev : ev ∈ evs) :
    ∃ r ∈ reads, f r = .ok (evsOf f r) ∧ ev ∈ evsOf f r := by
  obtain ⟨he, hok⟩ := run_is_concat h
  rw [he, List.mem_flatten] at hev
  obtain ⟨l, hl, hkl⟩ := hev
  obtain ⟨r, hr, rfl⟩ := List.mem_map.1 hl
  exact ⟨r, hr, hok r hr, hkl⟩
end Cutadapt.Steps
