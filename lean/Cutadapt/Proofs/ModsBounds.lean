import Cutadapt.Properties.C01
import Cutadapt.Properties.C08
import Cutadapt.Proofs.ModsRounds
/-! Bridge to C01: matches of well-formed adapters have in-bounds coordinates, so the hypothesis `AdaptersInBounds`
    of the mask / lowercase theorems is discharged by the soundness of `match_to`. Core Lean only. -/
namespace Cutadapt
open Cutadapt.Adapters

/-- every single adapter in the matchable is well-formed in the sense of C01 (as `mkAdapter` builds them) -/
def Matchable.WF : Matchable → Prop
  | .single a => C01.AdapterWF a
  | .linked f b _ _ _ => C01.AdapterWF f ∧ C01.AdapterWF b
  | .indexed ix _ =>
    -- the index object is what `AdapterIndex.__init__` builds from its (well-formed, wildcard-free) adapters
    ix = Index.makeIndex Index.hashOps ix.adapters ix.isPrefix ∧ ∀ a ∈ ix.adapters, C08.IsACGT a.seq ∧ C01.AdapterWF a

theorem matchTo_inBounds (a : Adapter) (h : C01.AdapterWF a) (s : Bytes) (mt : SingleMatch)
    (hm : Adapters.matchTo a s = some mt) : MatchRec.InBounds ⟨mt, s⟩ := by
  have := (C01.matchTo_sound a s h mt hm).bounds
  exact ⟨this.2.2.1, this.2.2.2⟩

theorem adaptersInBounds_of_wf (ads : List Matchable) (h : ∀ a ∈ ads, a.WF) : AdaptersInBounds ads := by
  intro a ha j s m hm p hp
  have hwf := h a ha
  cases a with
  | single ad =>
    simp only [Matchable.matchTo, Option.map_eq_some_iff] at hm
    obtain ⟨mt, hmt, rfl⟩ := hm
    simp only [AnyMatch.parts, List.mem_singleton] at hp
    subst hp
    exact matchTo_inBounds ad hwf s mt hmt
  | indexed ix ids =>
    obtain ⟨hix, hads⟩ := hwf
    simp only [Matchable.matchTo, Option.map_eq_some_iff] at hm
    obtain ⟨im, him, rfl⟩ := hm
    simp only [AnyMatch.parts, List.mem_singleton] at hp
    subst hp
    rw [hix] at him
    have hre : Index.RealignInside ix.adapters := fun a ha affix mt hmt => matchTo_inBounds a (hads a ha).2 affix mt hmt
    obtain ⟨c0, c1, c2, _⟩ := C08.index_coordinates_in_read Index.hashOps C08.dict_instances_lawful.2 ix.adapters ix.isPrefix s
      (fun a ha => (hads a ha).1) hre im him
    refine ⟨?_, c2⟩
    show (Matchable.ofIndexMatch ix.isPrefix im).rstart ≤ (Matchable.ofIndexMatch ix.isPrefix im).rstop
    simp only [Matchable.ofIndexMatch]
    omega
  | linked f b fr br nm =>
    obtain ⟨wf, wb⟩ := hwf
    simp only [Matchable.matchTo] at hm
    cases hf : Adapters.matchTo f s with
    | none =>
      simp only [hf] at hm
      cases hb : Adapters.matchTo b s with
      | none => simp [hb] at hm
      | some bm =>
        simp only [hb] at hm
        split at hm
        · exact absurd hm (by simp)
        · simp at hm
          subst hm
          simp [AnyMatch.parts] at hp
          subst hp
          exact matchTo_inBounds b wb s bm hb
    | some fm =>
      simp only [hf] at hm
      cases hb : Adapters.matchTo b (if fm.before then s.drop fm.rstop else s.take fm.rstart) with
      | none =>
        simp only [hb] at hm
        split at hm
        · exact absurd hm (by simp)
        · split at hm
          · exact absurd hm (by simp)
          · simp at hm
            subst hm
            simp [AnyMatch.parts] at hp
            subst hp
            exact matchTo_inBounds f wf s fm hf
      | some bm =>
        simp only [hb] at hm
        split at hm
        · exact absurd hm (by simp)
        · simp at hm
          subst hm
          simp [AnyMatch.parts] at hp
          rcases hp with rfl | rfl
          · exact matchTo_inBounds f wf s fm hf
          · exact matchTo_inBounds b wb _ bm hb

end Cutadapt
