import Cutadapt.Proofs.AlignSoundColumn
/-! Soundness of `Align.locate`, part 3: acceptance, best-match bookkeeping, the column loop. -/
namespace Cutadapt.Align.Sound
open Cutadapt Cutadapt.Align Cutadapt.Spec Cutadapt.Generated

theorem effLen_le (cfg : Cfg) (ref : Bytes) (m a b len : Nat) (h : len ≤ m) : effLen cfg ref m a b len ≤ m := by
  unfold effLen
  split
  · split <;> omega
  · exact h

/-- the acceptance test of `locate` for cell `e` in row `i` -/
def Acc (cfg : Cfg) (ref : Bytes) (i : Nat) (e : Entry) : Prop :=
  cfg.minOverlap ≤ toNatI ((i : Int) + min e.origin 0) ∧
  e.cost ≤ cfg.thr (effLen cfg ref ref.length (toNatI (-(min e.origin 0))) i (toNatI ((i : Int) + min e.origin 0)))

theorem sound_of_accept {cfg : Cfg} {ref query : Bytes} (hwf : cfg.WF ref.length) {i j : Nat} {e : Entry}
    (hi : i ≤ ref.length) (hj : j ≤ query.length)
    (hg : GoodK (mkCtx cfg ref query) i j e)
    (hstop : i = ref.length ∨ j = query.length) (hsr : cfg.stopInRef = false → i = ref.length)
    (hsq : cfg.stopInQuery = false → j = query.length)
    (hacc : Acc cfg ref i e) :
    SoundResult cfg ref query (decode e.origin).1 i (decode e.origin).2 j e.cost := by
  obtain ⟨hov, htol⟩ := hacc
  have e1 : toNatI (-(min e.origin 0)) = (decode e.origin).1 := by rw [decode_fst]; rfl
  have e2 : toNatI ((i : Int) + min e.origin 0) = i - (decode e.origin).1 := by
    rw [decode_fst]; unfold toNatI; omega
  rw [e1, e2] at htol
  rw [e2] at hov
  have hk : e.cost ≤ cfg.k := by
    rw [hwf.k_eq]
    exact Nat.le_trans htol (hwf.thr_mono _ _ (effLen_le _ _ _ _ _ _ (by omega)))
  obtain ⟨h1, h2, h3, h4, hs⟩ := hg hk
  exact {
    h_as := h1
    h_ae := hi
    h_rs := h2
    h_re := hj
    startRef := fun hf => by
      rcases h3 with h | h
      · exact h
      · have : (mkCtx cfg ref query).cfg = cfg := rfl
        rw [this, hf] at h; cases h
    startQuery := fun hf => by
      rcases h4 with h | h
      · exact h
      · have : (mkCtx cfg ref query).cfg = cfg := rfl
        rw [this, hf] at h; cases h
    startOne := by
      by_cases h : 0 ≤ e.origin
      · left; rw [decode_nonneg h]
      · right; rw [decode_neg (by omega)]
    stopRef := hsr
    stopQuery := hsq
    stopOne := hstop
    overlap := hov
    script := hs
    tolerance := htol }

def BestInv (cfg : Cfg) (ref query : Bytes) (b : Best) : Prop :=
  b.found = true →
    SoundResult cfg ref query (decode b.origin).1 b.refStop (decode b.origin).2 b.queryStop b.cost

/-- loop invariant: `s` describes the DP column for query prefix length `j` (unless the loop has stopped early) -/
structure Inv (cfg : Cfg) (ref query : Bytes) (j : Nat) (s : LoopState) : Prop where
  best : BestInv cfg ref query s.best
  last_le : s.last ≤ ref.length
  filled_le : s.lastFilled ≤ ref.length
  score : ∀ i, i ≤ ref.length → ScoreOK i (s.col.getD i default)
  col : s.done = false → ColInv (mkCtx cfg ref query) j s.last s.col
  doneBest : s.done = true → s.best.found = true ∧ (ref.length : Int) ≤ s.best.score

theorem columnLoop_inv {cfg : Cfg} {ref query : Bytes} (hwf : cfg.WF ref.length) {j : Nat}
    (hj : j < query.length) {s : LoopState} (h : Inv cfg ref query j s) :
    Inv cfg ref query (j+1) (columnLoop cfg (compareAscii cfg) (encodeRef cfg ref) ref ref.length s
      (j+1, (encodeQuery cfg query)[j]'(by rw [encodeQuery_length]; exact hj))) := by
  by_cases hd : s.done = true
  · unfold columnLoop
    simp only [hd, if_true]
    exact ⟨h.best, h.last_le, h.filled_le, h.score, fun h' => (by rw [hd] at h'; cases h'), h.doneBest⟩
  · have hd' : s.done = false := by simpa using hd
    have hcol := h.col hd'
    have hmlen : (mkCtx cfg ref query).ref.length = ref.length := encodeRef_length cfg ref
    have hj' : j < (mkCtx cfg ref query).query.length := by
      show j < (encodeQuery cfg query).length
      rw [encodeQuery_length]; exact hj
    have hstep := stepColumn_inv hwf.indel_pos hj' hcol
    unfold columnLoop
    simp only [hd', Bool.false_eq_true, if_false]
    have hstep' : ColInv (mkCtx cfg ref query) (j+1) s.last (stepColumn cfg (compareAscii cfg) (encodeRef cfg ref)
        (encodeQuery cfg query)[j] s.last s.col) := hstep
    generalize stepColumn cfg (compareAscii cfg) (encodeRef cfg ref) (encodeQuery cfg query)[j] s.last s.col = col'
      at hstep' ⊢
    have hscore : ∀ i, i ≤ ref.length → ScoreOK i (col'.getD i default) :=
      fun i hi => (hstep'.cells i (by rw [hmlen]; exact hi)).2.1
    have hm : ColInv (mkCtx cfg ref query) (j+1) ref.length col' := colInv_shrink hstep' (.inr hmlen.symm)
    split
    · exact ⟨h.best, by simp only; omega, h.last_le, hscore, fun _ => colInv_shrink hstep' (.inl rfl),
        fun h' => by cases h'⟩
    · split
      · next hsq =>
        split
        · next hacc =>
          simp only [Bool.and_eq_true, decide_eq_true_eq] at hacc
          have hacc' : Acc cfg ref ref.length (col'.getD ref.length default) := ⟨hacc.1.1, hacc.1.2⟩
          have hsound := sound_of_accept (query := query) (j := j+1) hwf (Nat.le_refl _) hj
            (hm.cells ref.length (by rw [hmlen]; exact Nat.le_refl _)).1 (.inl rfl) (fun _ => rfl)
            (fun hf => by rw [hsq] at hf; cases hf) hacc'
          refine ⟨fun _ => hsound, Nat.le_refl _, h.last_le, hscore, fun _ => hm, fun hdone => ⟨rfl, ?_⟩⟩
          simp only [Bool.and_eq_true, beq_iff_eq, decide_eq_true_eq] at hdone
          have := (hscore ref.length (Nat.le_refl _)).2 hdone.1
          simp only
          omega
        · exact ⟨h.best, Nat.le_refl _, h.last_le, hscore, fun _ => hm, fun h' => by cases h'⟩
      · exact ⟨h.best, Nat.le_refl _, h.last_le, hscore, fun _ => hm, fun h' => by cases h'⟩

end Cutadapt.Align.Sound
