import Cutadapt.Kmer
/-! `kmer_chunks` meets its specification; canonical sets have the members of the lists they are built from. -/
namespace Cutadapt.Kmer

/-! ### canonical sets -/

theorem mem_insertUniq_of {lt : α → α → Bool} {x y : α} {l : List α} (h : y ∈ insertUniq lt x l) : y = x ∨ y ∈ l := by
  induction l with
  | nil => simp [insertUniq] at h; exact Or.inl h
  | cons z zs ih =>
    simp only [insertUniq] at h
    split at h
    · simp at h; rcases h with h | h | h <;> simp [h]
    · split at h
      · simp only [List.mem_cons] at h
        rcases h with h | h
        · simp [h]
        · rcases ih h with h | h <;> simp [h]
      · right; exact h

theorem mem_insertUniq_old {lt : α → α → Bool} {x y : α} {l : List α} (h : y ∈ l) : y ∈ insertUniq lt x l := by
  induction l with
  | nil => simp at h
  | cons z zs ih =>
    simp only [insertUniq]
    split
    · simp; right; simpa using h
    · split
      · rcases List.mem_cons.mp h with h | h
        · simp [h]
        · exact List.mem_cons_of_mem _ (ih h)
      · exact h

theorem mem_insertUniq_new {lt : α → α → Bool} (tri : ∀ a b, lt a b = false → lt b a = false → a = b)
    {x : α} {l : List α} : x ∈ insertUniq lt x l := by
  induction l with
  | nil => simp [insertUniq]
  | cons z zs ih =>
    simp only [insertUniq]
    split
    · simp
    · split
      · exact List.mem_cons_of_mem _ ih
      · rename_i h1 h2
        have := tri x z (by simpa using h1) (by simpa using h2)
        simp [this]

theorem mem_sortUniq {lt : α → α → Bool} (tri : ∀ a b, lt a b = false → lt b a = false → a = b)
    {x : α} {l : List α} : x ∈ sortUniq lt l ↔ x ∈ l := by
  induction l with
  | nil => simp [sortUniq]
  | cons y ys ih =>
    simp only [sortUniq, List.foldr_cons, List.mem_cons] at ih ⊢
    constructor
    · intro h
      rcases mem_insertUniq_of h with h | h
      · exact Or.inl h
      · exact Or.inr (ih.mp h)
    · rintro (h | h)
      · subst h; exact mem_insertUniq_new tri
      · exact mem_insertUniq_old (ih.mpr h)

theorem bytesLt_tri : ∀ a b : Bytes, bytesLt a b = false → bytesLt b a = false → a = b
  | [], [], _, _ => rfl
  | [], _ :: _, h, _ => by simp [bytesLt] at h
  | _ :: _, [], _, h => by simp [bytesLt] at h
  | a :: as, b :: bs, h1, h2 => by
    simp only [bytesLt, Bool.or_eq_false_iff, decide_eq_false_iff_not, Bool.and_eq_false_imp, beq_iff_eq] at h1 h2
    have hab : a = b := UInt8.le_antisymm (UInt8.not_lt.mp h2.1) (UInt8.not_lt.mp h1.1)
    subst hab
    rw [bytesLt_tri as bs (h1.2 rfl) (h2.2 rfl)]

theorem mem_kmerChunks {s : Bytes} {c : Nat} {w : Bytes} : w ∈ kmerChunks s c ↔ w ∈ kmerChunksList s c :=
  mem_sortUniq bytesLt_tri

/-! ### `kmer_chunks` -/

theorem chunkSizes_length (n c : Nat) (hc : 1 ≤ c) : (chunkSizes n c).length = c := by
  have := Nat.mod_lt n (by omega : c > 0)
  simp [chunkSizes]; omega

theorem chunkSizes_sum (n c : Nat) (hc : 1 ≤ c) : (chunkSizes n c).sum = n := by
  have hr := Nat.mod_lt n (by omega : c > 0)
  simp only [chunkSizes, List.sum_append, List.sum_replicate_nat]
  have h1 : n % c * (n / c + 1) = n % c * (n / c) + n % c := by rw [Nat.mul_add, Nat.mul_one]
  have h2 : n % c * (n / c) + (c - n % c) * (n / c) = c * (n / c) := by
    rw [← Nat.add_mul]; congr 1; omega
  have h3 := Nat.div_add_mod n c
  omega

theorem chunkSizes_mem (n c k : Nat) (h : k ∈ chunkSizes n c) : k = n / c ∨ k = n / c + 1 := by
  simp only [chunkSizes, List.mem_append, List.mem_replicate] at h
  rcases h with ⟨_, h⟩ | ⟨_, h⟩ <;> simp [h]

theorem splitSizes_length (sizes : List Nat) (s : Bytes) : (splitSizes sizes s).length = sizes.length := by
  induction sizes generalizing s with
  | nil => rfl
  | cons k ks ih => simp [splitSizes, ih]

theorem splitSizes_flatten (sizes : List Nat) (s : Bytes) (h : sizes.sum = s.length) :
    (splitSizes sizes s).flatten = s := by
  induction sizes generalizing s with
  | nil => simp at h; simp [splitSizes, List.length_eq_zero_iff.mp h.symm]
  | cons k ks ih =>
    simp only [List.sum_cons] at h
    simp only [splitSizes, List.flatten_cons]
    rw [ih (s.drop k) (by simp; omega), List.take_append_drop]

theorem splitSizes_map_length (sizes : List Nat) (s : Bytes) (h : sizes.sum ≤ s.length) :
    (splitSizes sizes s).map List.length = sizes := by
  induction sizes generalizing s with
  | nil => rfl
  | cons k ks ih =>
    simp only [List.sum_cons] at h
    simp only [splitSizes, List.map_cons, List.length_take]
    rw [ih (s.drop k) (by simp; omega)]
    congr 1; omega

/-- `kmer_chunks`: for `1 ≤ c ≤ |s|` the chunks (in order, before they are put into a set) concatenate to `s`, there are
    `c` of them, every chunk has `⌊|s|/c⌋` or `⌊|s|/c⌋ + 1` characters (so sizes differ by at most one) and none is empty;
    the returned set has exactly these members. -/
theorem kmerChunksList_spec (s : Bytes) (c : Nat) (h1 : 1 ≤ c) (h2 : c ≤ s.length) :
    (kmerChunksList s c).flatten = s ∧ (kmerChunksList s c).length = c ∧
    (∀ w ∈ kmerChunksList s c, w.length = s.length / c ∨ w.length = s.length / c + 1) ∧
    (∀ w ∈ kmerChunksList s c, w ≠ []) := by
  have hsum := chunkSizes_sum s.length c h1
  have hml := splitSizes_map_length (chunkSizes s.length c) s (by omega)
  have hsz : ∀ w ∈ kmerChunksList s c, w.length = s.length / c ∨ w.length = s.length / c + 1 := by
    intro w hw
    have : w.length ∈ (splitSizes (chunkSizes s.length c) s).map List.length := List.mem_map_of_mem hw
    rw [hml] at this
    exact chunkSizes_mem _ _ _ this
  refine ⟨splitSizes_flatten _ _ hsum, ?_, hsz, ?_⟩
  · simp [kmerChunksList, splitSizes_length, chunkSizes_length _ _ h1]
  · intro w hw hnil
    have hq : 1 ≤ s.length / c := (Nat.le_div_iff_mul_le (by omega)).mpr (by omega)
    have := hsz w hw
    simp [hnil] at this
    omega

end Cutadapt.Kmer
