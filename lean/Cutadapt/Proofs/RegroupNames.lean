import Cutadapt.Proofs.RegroupMain
import Mathlib.Data.List.Forall2
/-! Names after regrouping (`namesOf` of the regrouped list against the given list): extra obligations of C08. -/
namespace Cutadapt.C08
open Cutadapt Cutadapt.Adapters

/-- list entries that are not index objects have no members -/
theorem flatMap_memberNames_nil (l : List Matchable) (h : ∀ m ∈ l, m.isIndexed = false) : l.flatMap Matchable.memberNames = [] := by
  induction l with
  | nil => rfl
  | cons x xs ih =>
    have hx := h x List.mem_cons_self
    have : x.memberNames = [] := by
      cases x with
      | indexed ix ids => simp [Matchable.isIndexed] at hx
      | single a => rfl
      | linked f b fr br n => rfl
    simp [this, ih (fun m hm => h m (List.mem_cons_of_mem _ hm))]

/-- row `n` of the name table is the row of the given adapter at position `o` (nothing is claimed for an index object's own row) -/
def NameOf (ads : List Matchable) (n : String) (o : Option Nat) : Prop := ∀ j, o = some j → (ads[j]?).map Matchable.name = some n

theorem forall2_map_of_mem {α : Type} {R : String → Option Nat → Prop} (l : List α) (f : α → String) (g : α → Option Nat)
    (h : ∀ x ∈ l, R (f x) (g x)) : List.Forall₂ R (l.map f) (l.map g) := by
  induction l with
  | nil => exact .nil
  | cons x xs ih => exact .cons (h x List.mem_cons_self) (ih fun y hy => h y (List.mem_cons_of_mem _ hy))

theorem names_other (ads : List Matchable) :
    List.Forall₂ (NameOf ads) ((splitAdapters ads).2.2.map (fun p => p.1.name)) ((splitAdapters ads).2.2.map (fun p => some p.2)) :=
  forall2_map_of_mem _ _ _ fun ⟨m, j⟩ hm j' hj => by
    cases hj
    simp [mem_split_other hm]

theorem names_pre (ads : List Matchable) :
    List.Forall₂ (NameOf ads) ((splitAdapters ads).1.map (fun p => p.1.name)) ((splitAdapters ads).1.map (fun p => some p.2)) :=
  forall2_map_of_mem _ _ _ fun ⟨a, j⟩ hm j' hj => by
    cases hj
    simp [(mem_split_pre hm).1, Matchable.name]

theorem names_suf (ads : List Matchable) :
    List.Forall₂ (NameOf ads) ((splitAdapters ads).2.1.map (fun p => p.1.name)) ((splitAdapters ads).2.1.map (fun p => some p.2)) :=
  forall2_map_of_mem _ _ _ fun ⟨a, j⟩ hm j' hj => by
    cases hj
    simp [(mem_split_suf hm).1, Matchable.name]

theorem forall2_range (ads : List Matchable) :
    List.Forall₂ (NameOf ads) (ads.map Matchable.name) ((List.range ads.length).map some) := by
  rw [List.forall₂_iff_get]
  refine ⟨by simp, fun i h1 h2 j hj => ?_⟩
  simp at hj
  subst hj
  simp at h1
  simp [h1]

theorem nameOf_none (ads : List Matchable) (n : String) : NameOf ads n none := fun _ h => by cases h

/-- **The name table after regrouping names the given adapters**: row by row, the name under which statistics, `{adapter_name}`, the info
    file and `{name}` output files show an adapter is the name of the given adapter the row stands for (`origin`), whether the adapter stayed
    in the list, was moved behind the others, or became a member of an index. With `regroup_origin_perm` (every given adapter has exactly
    one row): regrouping never renames, drops or duplicates an adapter in any report. -/
theorem regroup_names (ads : List Matchable) (hn : ∀ m ∈ ads, m.isIndexed = false) :
    List.Forall₂ (NameOf ads) (namesOf (regroup ads).ads) (regroup ads).origin := by
  have hother : ∀ m ∈ (splitAdapters ads).2.2.map (fun p => p.1), m.isIndexed = false := by
    intro m hm
    obtain ⟨⟨m', j⟩, hmem, rfl⟩ := List.mem_map.mp hm
    exact hn m' (List.mem_of_getElem? (mem_split_other hmem))
  have hsingle : ∀ (l : List (Adapter × Nat)), (l.map (fun p => Matchable.single p.1)).flatMap Matchable.memberNames = [] := by
    intro l
    apply flatMap_memberNames_nil
    intro m hm
    obtain ⟨p, _, rfl⟩ := List.mem_map.mp hm
    rfl
  by_cases c1 : (splitAdapters ads).1.length > 1 <;> by_cases c2 : (splitAdapters ads).2.1.length > 1
  all_goals
    simp only [regroup, namesOf, c1, c2, decide_true, decide_false, Bool.or_self, Bool.or_true, Bool.or_false,
      Bool.false_eq_true, ↓reduceIte, List.map_append, List.map_map, List.flatMap_append, List.map_cons,
      List.map_nil, List.flatMap_cons, List.flatMap_nil, List.append_nil, Matchable.memberNames, Index.makeIndex, Function.comp_def]
  · rw [flatMap_memberNames_nil _ hother]
    simp only [List.nil_append, List.append_assoc]
    refine List.rel_append (names_other ads) ?_
    refine List.rel_append (.cons (nameOf_none _ _) .nil) ?_
    refine List.rel_append (.cons (nameOf_none _ _) .nil) ?_
    exact List.rel_append (names_pre ads) (names_suf ads)
  · rw [flatMap_memberNames_nil _ hother, hsingle]
    simp only [List.nil_append, List.append_nil, List.append_assoc, Matchable.name]
    refine List.rel_append (names_other ads) ?_
    refine List.rel_append (.cons (nameOf_none _ _) .nil) ?_
    exact List.rel_append (names_suf ads) (names_pre ads)
  · rw [flatMap_memberNames_nil _ hother, hsingle]
    simp only [List.nil_append, List.append_nil, List.append_assoc, Matchable.name]
    refine List.rel_append (names_other ads) ?_
    refine List.rel_append (names_pre ads) ?_
    refine List.rel_append (.cons (nameOf_none _ _) .nil) ?_
    exact names_suf ads
  · rw [flatMap_memberNames_nil _ hn]
    simpa using forall2_range ads

/-- **Every given adapter keeps a row under its own name**: for each adapter the user gave there is a row of the regrouped name table that
    stands for it (`origin`) and carries its name. -/
theorem regroup_every_adapter_named (ads : List Matchable) (hn : ∀ m ∈ ads, m.isIndexed = false) (j : Nat) (hj : j < ads.length) :
    ∃ k : Nat, (regroup ads).origin[k]? = some (some j) ∧ (namesOf (regroup ads).ads)[k]? = some (ads[j].name) := by
  have hmem : j ∈ (regroup ads).origin.filterMap id := (regroup_origin_perm ads).mem_iff.mpr (List.mem_range.mpr hj)
  obtain ⟨o, ho, hoj⟩ := List.mem_filterMap.mp hmem
  simp only [id] at hoj
  subst hoj
  obtain ⟨k, hk, hget⟩ := List.getElem_of_mem ho
  have hget' : (regroup ads).origin[k]? = some (some j) := by rw [List.getElem?_eq_getElem hk, hget]
  have h2 := regroup_names ads hn
  obtain ⟨hlen, hall⟩ := List.forall₂_iff_get.mp h2
  have hk' : k < (namesOf (regroup ads).ads).length := by omega
  have := hall k hk' hk j (by simpa using hget)
  refine ⟨k, hget', ?_⟩
  simp only [List.getElem?_eq_getElem hj, Option.map_some, Option.some.injEq] at this
  rw [List.getElem?_eq_getElem hk', this]
  rfl

private def exAd (n : String) (s : String) : Matchable :=
  .single { ty := .prefix, seq := s.toUTF8.toList, thr := fun _ => 0, minOverlap := s.length, readWildcards := false,
            adapterWildcards := false, indels := false, name := n }

private def exBack : Matchable :=
  .single { ty := .back, seq := "GGG".toUTF8.toList, thr := fun _ => 0, minOverlap := 3, readWildcards := false,
            adapterWildcards := false, indels := true, name := "y" }

/-- non-vacuity and the shape of the table: two indexable anchored 5' adapters around a regular one are moved behind it into one index,
    whose own row precedes the member rows; the origins point back at the given positions -/
example : namesOf (regroup [exAd "x" "ACGT", exBack, exAd "z" "TTGA"]).ads = ["y", "indexed_prefix_adapters", "x", "z"] ∧
        (regroup [exAd "x" "ACGT", exBack, exAd "z" "TTGA"]).origin = [some 1, none, some 0, some 2] := by
  constructor <;> decide
end Cutadapt.C08
