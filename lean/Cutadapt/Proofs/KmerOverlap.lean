import Cutadapt.Proofs.KmerFinder
/-! Partial (overlap) occurrences survive the repaired prefilter: from a search set that serves the overlap length,
    through `remove_redundant_kmers`, the packing into masks and the window arithmetic, to `kmers_present = True` (C07). -/
namespace Cutadapt.Kmer
open Cutadapt Cutadapt.Spec Cutadapt.Align Cutadapt.Adapters Cutadapt.Generated

/-! ### `minimize_kmer_search_list` only widens windows -/

theorem minInt_le (l : List Int) (d : Int) : minInt l d ≤ d ∧ ∀ x ∈ l, minInt l d ≤ x := by
  induction l generalizing d with
  | nil => simp [minInt]
  | cons a l ih =>
    simp only [minInt, List.foldl_cons] at ih ⊢
    obtain ⟨h1, h2⟩ := ih (min d a)
    refine ⟨by omega, ?_⟩
    intro x hx
    rcases List.mem_cons.mp hx with hx | hx
    · subst hx; omega
    · exact h2 x hx

theorem maxInt_ge (l : List Int) (d : Int) : d ≤ maxInt l d ∧ ∀ x ∈ l, x ≤ maxInt l d := by
  induction l generalizing d with
  | nil => simp [maxInt]
  | cons a l ih =>
    simp only [maxInt, List.foldl_cons] at ih ⊢
    obtain ⟨h1, h2⟩ := ih (max d a)
    refine ⟨by omega, ?_⟩
    intro x hx
    rcases List.mem_cons.mp hx with hx | hx
    · subst hx; omega
    · exact h2 x hx

theorem minimizeOne_back {positions ps : List Pos} (h : minimizeOne positions = .ok ps) {s : Int}
    (hs : (s, (none : Option Int)) ∈ positions) : ∃ s', (s', (none : Option Int)) ∈ ps ∧ (s' = 0 ∨ s' ≤ s) := by
  unfold minimizeOne at h
  split at h
  · cases h
    simp only [List.mem_singleton] at hs
    exact ⟨s, by simp [hs], Or.inr (Int.le_refl _)⟩
  · by_cases hc : positions.contains ((0 : Int), (none : Option Int)) = true
    · simp only [hc, ↓reduceIte] at h
      cases h
      exact ⟨0, by simp, Or.inl rfl⟩
    · simp only [hc, Bool.false_eq_true, ↓reduceIte] at h
      split at h
      · cases h
      · cases h
        have hmem : s ∈ (positions.filter (fun p => p.2.isNone)).map (·.1) :=
          List.mem_map.mpr ⟨(s, none), List.mem_filter.mpr ⟨hs, rfl⟩, rfl⟩
        cases hb : (positions.filter (fun p => p.2.isNone)).map (·.1) with
        | nil => rw [hb] at hmem; simp at hmem
        | cons s0 ss =>
          rw [hb] at hmem
          refine ⟨minInt ss s0, by simp, Or.inr ?_⟩
          obtain ⟨h1, h2⟩ := minInt_le ss s0
          rcases List.mem_cons.mp hmem with hm | hm
          · rw [hm]; exact h1
          · exact h2 s hm

theorem minimizeOne_front {positions ps : List Pos} (h : minimizeOne positions = .ok ps) {t : Int}
    (hs : ((0 : Int), some t) ∈ positions) :
    ((0 : Int), (none : Option Int)) ∈ ps ∨ ∃ t', ((0 : Int), some t') ∈ ps ∧ t ≤ t' := by
  unfold minimizeOne at h
  split at h
  · cases h
    simp only [List.mem_singleton] at hs
    exact Or.inr ⟨t, by simp [hs], Int.le_refl _⟩
  · by_cases hc : positions.contains ((0 : Int), (none : Option Int)) = true
    · simp only [hc, ↓reduceIte] at h
      cases h
      exact Or.inl (by simp)
    · simp only [hc, Bool.false_eq_true, ↓reduceIte] at h
      split at h
      · cases h
      · cases h
        right
        have hmem : t ∈ (positions.filter (fun p => p.1 == 0)).filterMap (·.2) :=
          List.mem_filterMap.mpr ⟨(0, some t), List.mem_filter.mpr ⟨hs, by simp⟩, rfl⟩
        cases hb : (positions.filter (fun p => p.1 == 0)).filterMap (·.2) with
        | nil => rw [hb] at hmem; simp at hmem
        | cons s0 ss =>
          rw [hb] at hmem
          refine ⟨maxInt ss s0, by simp, ?_⟩
          obtain ⟨h1, h2⟩ := maxInt_ge ss s0
          rcases List.mem_cons.mp hmem with hm | hm
          · rw [hm]; exact h1
          · exact h2 t hm

/-- the triples kept for a k-mer that is searched somewhere -/
theorem minimize_mem {l r : List (Bytes × Pos)} (h : minimizeKmerSearchList l = .ok r) {k : Bytes}
    (hk : k ∈ l.map (·.1)) :
    ∃ ps, minimizeOne ((l.filter (·.1 == k)).map (·.2)) = .ok ps ∧ ∀ p ∈ ps, (k, p) ∈ r := by
  unfold minimizeKmerSearchList at h
  split at h
  · cases h
  · rename_i ls hls
    cases h
    obtain ⟨h1, _⟩ := mapE_ok hls
    obtain ⟨y, hy, hyl⟩ := h1 k ((mem_sortUniq bytesLt_tri).mpr hk)
    unfold minimizeFor at hy
    split at hy
    · cases hy
    · rename_i ps hps
      cases hy
      exact ⟨ps, hps, fun p hp => List.mem_flatten.mpr ⟨_, hyl, List.mem_map.mpr ⟨p, hp, rfl⟩⟩⟩

theorem minimize_mem_inv {l r : List (Bytes × Pos)} (h : minimizeKmerSearchList l = .ok r) {k : Bytes} {p : Pos}
    (hk : (k, p) ∈ r) : k ∈ l.map (·.1) := by
  unfold minimizeKmerSearchList at h
  split at h
  · cases h
  · rename_i ls hls
    cases h
    obtain ⟨_, h2⟩ := mapE_ok hls
    obtain ⟨y, hy, hky⟩ := List.mem_flatten.mp hk
    obtain ⟨k', hk', hf⟩ := h2 y hy
    unfold minimizeFor at hf
    split at hf
    · cases hf
    · cases hf
      simp only [List.mem_map, Prod.mk.injEq] at hky
      obtain ⟨_, _, hkk, _⟩ := hky
      subst hkk
      exact (mem_sortUniq bytesLt_tri).mp hk'

/-- the entries of `remove_redundant_kmers` and the minimised triples are the same thing -/
theorem removeRedundant_entries {sets : List SearchSet} {entries : List Entry}
    (h : removeRedundantKmers sets = .ok entries) :
    ∃ minimized, minimizeKmerSearchList (sets.flatMap (fun s => s.kmers.map (fun k => (k, (s.start, s.stop))))) = .ok minimized ∧
      (∀ k p, (k, p) ∈ minimized → ∃ e ∈ entries, e.start = p.1 ∧ e.stop = p.2 ∧ k ∈ e.kmers) ∧
      (∀ e ∈ entries, ∀ k ∈ e.kmers, (k, (e.start, e.stop)) ∈ minimized) := by
  dsimp only [removeRedundantKmers] at h
  split at h
  · cases h
  · rename_i minimized hmin
    cases h
    refine ⟨minimized, hmin, ?_, ?_⟩
    · intro k p hm
      have hkey : p ∈ sortUniq posLt (minimized.map (·.2)) :=
        (mem_sortUniq posLt_tri).mpr (List.mem_map.mpr ⟨_, hm, rfl⟩)
      refine ⟨_, List.mem_map.mpr ⟨p, hkey, rfl⟩, rfl, rfl, ?_⟩
      simp only [List.mem_map, List.mem_filter, beq_iff_eq]
      exact ⟨(k, p), ⟨hm, rfl⟩, rfl⟩
    · intro e he k hk
      simp only [List.mem_map] at he
      obtain ⟨key, _, rfl⟩ := he
      simp only [List.mem_map, List.mem_filter, beq_iff_eq] at hk
      obtain ⟨⟨k0, p0⟩, ⟨hin, hp0⟩, hk0⟩ := hk
      simp only at hp0 hk0; subst hk0; subst hp0
      exact hin

theorem triples_mem {sets : List SearchSet} {S : SearchSet} (hS : S ∈ sets) {k : Bytes} (hk : k ∈ S.kmers) :
    (k, (S.start, S.stop)) ∈ sets.flatMap (fun s => s.kmers.map (fun k => (k, (s.start, s.stop)))) :=
  List.mem_flatMap.mpr ⟨S, hS, List.mem_map.mpr ⟨k, hk, rfl⟩⟩

/-- a k-mer of a 3' search set is still searched in a window that contains the set's window -/
theorem removeRedundant_back {sets : List SearchSet} {entries : List Entry} (h : removeRedundantKmers sets = .ok entries)
    {S : SearchSet} (hS : S ∈ sets) (hstop : S.stop = none) {k : Bytes} (hk : k ∈ S.kmers) :
    ∃ e ∈ entries, k ∈ e.kmers ∧ e.stop = none ∧ (e.start = 0 ∨ e.start ≤ S.start) := by
  obtain ⟨minimized, hmin, h1, _⟩ := removeRedundant_entries h
  have htr := triples_mem hS hk
  obtain ⟨ps, hps, hall⟩ := minimize_mem hmin (List.mem_map.mpr ⟨_, htr, rfl⟩)
  have hpos : (S.start, (none : Option Int)) ∈
      ((sets.flatMap (fun s => s.kmers.map (fun k => (k, (s.start, s.stop))))).filter (·.1 == k)).map (·.2) := by
    simp only [List.mem_map, List.mem_filter, beq_iff_eq]
    exact ⟨_, ⟨htr, rfl⟩, by simp [hstop]⟩
  obtain ⟨s', hs', hle⟩ := minimizeOne_back hps hpos
  obtain ⟨e, he, hes, het, hke⟩ := h1 k _ (hall _ hs')
  exact ⟨e, he, hke, het, by rw [hes]; exact hle⟩

/-- a k-mer of a 5' search set is still searched in a window that contains the set's window -/
theorem removeRedundant_front {sets : List SearchSet} {entries : List Entry} (h : removeRedundantKmers sets = .ok entries)
    {S : SearchSet} (hS : S ∈ sets) (hstart : S.start = 0) {t : Int} (hstop : S.stop = some t) {k : Bytes}
    (hk : k ∈ S.kmers) :
    ∃ e ∈ entries, k ∈ e.kmers ∧ e.start = 0 ∧ (e.stop = none ∨ ∃ t', e.stop = some t' ∧ t ≤ t') := by
  obtain ⟨minimized, hmin, h1, _⟩ := removeRedundant_entries h
  have htr := triples_mem hS hk
  obtain ⟨ps, hps, hall⟩ := minimize_mem hmin (List.mem_map.mpr ⟨_, htr, rfl⟩)
  have hpos : ((0 : Int), some t) ∈
      ((sets.flatMap (fun s => s.kmers.map (fun k => (k, (s.start, s.stop))))).filter (·.1 == k)).map (·.2) := by
    simp only [List.mem_map, List.mem_filter, beq_iff_eq]
    exact ⟨_, ⟨htr, rfl⟩, by simp [hstop, hstart]⟩
  rcases minimizeOne_front hps hpos with h0 | ⟨t', ht', hle⟩
  · obtain ⟨e, he, hes, het, hke⟩ := h1 k _ (hall _ h0)
    exact ⟨e, he, hke, hes, Or.inl het⟩
  · obtain ⟨e, he, hes, het, hke⟩ := h1 k _ (hall _ ht')
    exact ⟨e, he, hke, hes, Or.inr ⟨t', het, hle⟩⟩

/-- every k-mer in the final table comes from some search set -/
theorem removeRedundant_sub {sets : List SearchSet} {entries : List Entry} (h : removeRedundantKmers sets = .ok entries)
    {e : Entry} (he : e ∈ entries) {k : Bytes} (hk : k ∈ e.kmers) : ∃ S ∈ sets, k ∈ S.kmers := by
  obtain ⟨minimized, hmin, _, h2⟩ := removeRedundant_entries h
  have := minimize_mem_inv hmin (h2 e he k hk)
  simp only [List.mem_map, List.mem_flatMap] at this
  obtain ⟨⟨k', p⟩, ⟨S, hS, k'', hk'', heq⟩, rfl⟩ := this
  simp only [Prod.mk.injEq] at heq
  exact ⟨S, hS, by rw [← heq.1]; exact hk''⟩

end Cutadapt.Kmer

namespace Cutadapt.Kmer
open Cutadapt Cutadapt.Spec Cutadapt.Align Cutadapt.Adapters Cutadapt.Generated

/-! ### windows stay inside the read -/

/-- since d940092 every window lies inside the sequence -/
theorem windowOf_bound {start stop : Int} {n st len : Nat} (h : windowOf start stop n = some (st, len)) :
    st + len ≤ n := by
  unfold windowOf at h
  simp only at h
  split at h
  · cases h
  · rename_i st' hst
    split at h
    · cases h
    · rename_i sp hsp
      split at h
      · cases h
      · rename_i hpos
        simp only [Option.some.injEq, Prod.mk.injEq] at h
        obtain ⟨h1, h2⟩ := h
        have hst0 : 0 ≤ st' ∧ st' ≤ n := by
          split at hst
          · simp only [Option.some.injEq] at hst; split at hst <;> omega
          · split at hst
            · cases hst
            · simp only [Option.some.injEq] at hst; omega
        have hsp0 : sp ≤ n := by
          split at hsp
          · split at hsp
            · cases hsp
            · simp only [Option.some.injEq] at hsp; omega
          · split at hsp
            · simp only [Option.some.injEq] at hsp; omega
            · rename_i hne
              simp only [Option.some.injEq] at hsp
              simp only [Bool.or_eq_true, beq_iff_eq, decide_eq_true_eq, not_or] at hne
              omega
        omega

theorem haystack_inside (read beyond : Bytes) (st len : Nat) (h : st + len ≤ read.length) :
    haystack (read ++ beyond) st len = (read.drop st).take len := by
  unfold haystack
  have h1 : ((read ++ beyond).drop st).take len = (read.drop st).take len := by
    rw [List.drop_append_of_le_length (by omega), List.take_append_of_le_length (by simp; omega)]
  simp only [h1]
  have : ((read.drop st).take len).length = len := by simp; omega
  rw [this]; simp

theorem entryPresent_ignores_beyond (wr wq : Bool) (e : MaskEntry) (read b1 b2 : Bytes) :
    entryPresent wr wq e read b1 = entryPresent wr wq e read b2 := by
  unfold entryPresent
  split
  · rfl
  · rename_i st len hw
    have := windowOf_bound hw
    rw [haystack_inside read b1 st len this, haystack_inside read b2 st len this]

/-- the verdict of `kmers_present` does not depend on what lies behind the read in memory -/
theorem kmersPresent_ignores_beyond (f : Finder) (read b1 b2 : Bytes) :
    kmersPresent f read b1 = kmersPresent f read b2 := by
  cases f with
  | mock => rfl
  | masks wr wq entries =>
    simp only [kmersPresent]
    congr 1
    funext e
    exact entryPresent_ignores_beyond wr wq e read b1 b2

theorem windowOf_back (s : Int) (hs : s < 0) (n : Nat) (hn : 0 < n) :
    windowOf s 0 n = some (((n : Int) + s).toNat, n - ((n : Int) + s).toNat) := by
  unfold windowOf
  simp only [hs, ↓reduceIte]
  have h0 : ¬ ((0 : Int) < 0) := by omega
  by_cases hneg : (n : Int) + s < 0
  · simp [hneg]; omega
  · simp [hneg]
    constructor
    · omega
    · omega

theorem windowOf_front (t : Int) (ht : 1 ≤ t) (n : Nat) (hn : 0 < n) :
    windowOf 0 t n = some (0, min t.toNat n) := by
  unfold windowOf
  have h0 : ¬ ((0 : Int) < 0) := by omega
  have h1 : ¬ ((0 : Int) > (n : Int)) := by omega
  have h2 : ¬ (t < 0) := by omega
  by_cases hgt : t > (n : Int)
  · simp [h1, h2, hgt]; omega
  · have h3 : ¬ (t = 0) := by omega
    simp [h1, h2, hgt, h3]; omega

/-- an occurrence in the read that lies inside the window is an occurrence in the window -/
theorem occurs_in_window {m : UInt8 → UInt8 → Bool} {k read : Bytes} {p st len : Nat}
    (h : OccursAt m k read p) (h1 : st ≤ p) (h2 : p + k.length ≤ st + len) :
    OccursAt m k ((read.drop st).take len) (p - st) := by
  obtain ⟨hle, hocc⟩ := h
  refine ⟨by simp; omega, ?_⟩
  intro j hj
  obtain ⟨a, c, ha, hc, hac⟩ := hocc j hj
  refine ⟨a, c, ha, ?_, hac⟩
  rw [List.getElem?_take, if_pos (by omega), List.getElem?_drop, ← hc]
  congr 1; omega

theorem entryPresent_of_occurs_window (wr wq : Bool) (me : MaskEntry) (hne : ∀ w ∈ me.words, w ≠ [])
    (hlen : me.words.flatten.length ≤ 64) (read beyond : Bytes) (st len : Nat)
    (hw : windowOf me.start me.stop read.length = some (st, len))
    (k : Bytes) (hk : k ∈ me.words) (p : Nat) (hocc : OccursAt (kmerMatches wr wq) k read p)
    (h1 : st ≤ p) (h2 : p + k.length ≤ st + len) :
    entryPresent wr wq me read beyond = true := by
  simp only [entryPresent, hw, haystack_inside read beyond st len (windowOf_bound hw), entryMask_eq, MaskEntry.needle,
    MaskEntry.initMask, MaskEntry.foundMask]
  exact (shiftAnd_correct (kmerMatches wr wq) me.words hne hlen _).mpr ⟨k, hk, p - st, occurs_in_window hocc h1 h2⟩

end Cutadapt.Kmer

namespace Cutadapt.Spec
open Cutadapt

theorem occursAt_prefix {m : Sym → Sym → Bool} {w t u : List Sym} {i : Nat} (h : OccursAt m w t i) :
    OccursAt m w (t ++ u) i := by
  obtain ⟨h1, h2⟩ := h
  refine ⟨by simp; omega, fun j hj => ?_⟩
  obtain ⟨a, c, ha, hc, hac⟩ := h2 j hj
  exact ⟨a, c, ha, by rw [List.getElem?_append_left (by omega)]; exact hc, hac⟩

/-- pigeonhole when the chunks cover only a prefix of the adapter side -/
theorem pigeonhole_prefix (eq : Sym → Sym → Bool) (c : Nat) (hc : 1 ≤ c) (sc : List Op) (cs : List (List Sym))
    (tail : List Sym) (hcs : cs.flatten ++ tail = lhs sc) (hlen : cost eq c sc < cs.length) :
    ∃ (j : Nat) (ch : List Sym) (o' : Nat), cs[j]? = some ch ∧ OccursAt eq ch (rhs sc) o' := by
  obtain ⟨s1, s2, hsc, h1, _⟩ := split_lhs sc cs.flatten tail hcs.symm
  have hc1 : cost eq c s1 ≤ cs.length - 1 := by rw [hsc, cost_append] at hlen; omega
  obtain ⟨j, ch, o', hj, hocc, _, _⟩ := pigeonhole_script eq c hc s1 (cs.length - 1) hc1 cs h1.symm (by omega)
  exact ⟨j, ch, o', hj, by rw [hsc, rhs_append]; exact occursAt_prefix hocc⟩

theorem indels_mul_le_cost (eq : Sym → Sym → Bool) (c : Nat) (s : List Op) : indels s * c ≤ cost eq c s := by
  induction s with
  | nil => simp [indels]
  | cons o s ih =>
    have h0 : indels (o :: s) = indels [o] + indels s := indels_append [o] s
    rw [h0, cost_cons, Nat.add_mul]
    cases o with
    | sub r q => have : indels [Op.sub r q] = 0 := rfl; rw [this]; simp only [Op.cost]; split <;> omega
    | del r => have : indels [Op.del r] = 1 := rfl; rw [this]; simp only [Op.cost]; omega
    | ins q => have : indels [Op.ins q] = 1 := rfl; rw [this]; simp only [Op.cost]; omega

/-! reversal of scripts -/
theorem lhs_reverse (s : List Op) : lhs s.reverse = (lhs s).reverse := by
  induction s with
  | nil => rfl
  | cons o s ih => cases o <;> simp [Op.lhs, ih]

theorem rhs_reverse (s : List Op) : rhs s.reverse = (rhs s).reverse := by
  induction s with
  | nil => rfl
  | cons o s ih => cases o <;> simp [Op.rhs, ih]

theorem cost_reverse (eq : Sym → Sym → Bool) (c : Nat) (s : List Op) : cost eq c s.reverse = cost eq c s := by
  induction s with
  | nil => rfl
  | cons o s ih => simp [ih]; omega

theorem occursAt_reverse {m : Sym → Sym → Bool} {w t : List Sym} {i : Nat} (h : OccursAt m w t i) :
    OccursAt m w.reverse t.reverse (t.length - i - w.length) := by
  obtain ⟨h1, h2⟩ := h
  refine ⟨by simp; omega, fun j hj => ?_⟩
  simp only [List.length_reverse] at hj
  obtain ⟨a, c, ha, hc, hac⟩ := h2 (w.length - 1 - j) (by omega)
  refine ⟨a, c, ?_, ?_, hac⟩
  · rw [List.getElem?_reverse (by omega)]; exact ha
  · rw [List.getElem?_reverse (by omega), ← hc]; congr 1; omega

end Cutadapt.Spec

namespace Cutadapt.Kmer
open Cutadapt Cutadapt.Spec Cutadapt.Align Cutadapt.Adapters Cutadapt.Generated

/-- **Every overlap level is safe on its own** (repaired tables). Let a script align the adapter prefix `ad[:L]` (characters
    seen through `f`), `min_overlap ≤ L ≤ |ad|`, with the text suffix `T[rs:]` at cost at most `thr L`, and let the number
    of its indels be at most the slack (`thr L` with indels, 0 without). Then some search set of
    `create_back_overlap_searchsets` has a non-empty k-mer that occurs in `T`, under `eq` through `f`, entirely inside that
    set's window `[|T| + start, |T|)`. -/
theorem overlap_level_safe {thr : Nat → Nat} (hthr : ThrOK thr) (ad : Bytes) (mo : Nat) (hmo : 1 ≤ mo) (ind : Bool)
    (eq : Sym → Sym → Bool) (c : Nat) (hc : 1 ≤ c) (f : Sym → Sym) (T : List Sym) (rs L : Nat)
    (hL1 : mo ≤ L) (hL2 : L ≤ ad.length) (s : List Op) (hl : lhs s = (ad.take L).map f) (hr : rhs s = T.drop rs)
    (hrs : rs ≤ T.length) (hcost : cost eq c s ≤ thr L) (hind : indels s ≤ (if ind then thr L else 0)) :
    ∃ S ∈ createBackOverlapSearchsets ad mo thr ind, S.stop = none ∧ ∃ k ∈ S.kmers, k ≠ [] ∧ (∀ a ∈ k, a ∈ ad) ∧ ∃ p,
      OccursAt eq (k.map f) T p ∧ (T.length : Int) + S.start ≤ p := by
  obtain ⟨S, hS, cs, w, M, hstart, hstop, hsub, hne, hflat, hML, hcnt, hw⟩ := backSets_serves hthr ad ind mo hmo L hL1 hL2
  have hsplit : (cs.map (List.map f)).flatten ++ ((ad.take L).drop M).map f = lhs s := by
    rw [hl, ← List.map_flatten, hflat, ← List.map_append]
    congr 1
    have : ad.take M = (ad.take L).take M := by rw [List.take_take, Nat.min_eq_left hML]
    rw [this, List.take_append_drop]
  obtain ⟨j, ch, o', hj, hocc⟩ := pigeonhole_prefix eq c hc s (cs.map (List.map f)) _ hsplit (by simp; omega)
  rw [List.getElem?_map, Option.map_eq_some_iff] at hj
  obtain ⟨k, hk, rfl⟩ := hj
  have hkm := List.mem_of_getElem? hk
  have hlen := length_diff_le_indels s
  rw [hl, hr] at hlen
  simp only [List.length_map, List.length_take, List.length_drop] at hlen
  have hchars : ∀ a ∈ k, a ∈ ad := by
    intro a ha
    have : a ∈ cs.flatten := List.mem_flatten.mpr ⟨k, hkm, ha⟩
    rw [hflat] at this
    exact List.mem_of_mem_take this
  refine ⟨S, hS, hstop, k, hsub k hkm, hne k hkm, hchars, rs + o', ?_, ?_⟩
  · obtain ⟨h1, h2⟩ := hocc
    rw [hr] at h1 h2
    simp only [List.length_drop] at h1
    refine ⟨by omega, fun i hi => ?_⟩
    obtain ⟨a, c', ha, hc', hac⟩ := h2 i hi
    rw [List.getElem?_drop] at hc'
    exact ⟨a, c', ha, by rw [Nat.add_assoc]; exact hc', hac⟩
  · rw [hstart]
    have : min L ad.length = L := Nat.min_eq_left hL2
    rw [this] at hlen
    split at hw <;> split at hind <;> simp_all <;> omega

end Cutadapt.Kmer

namespace Cutadapt.Kmer
open Cutadapt Cutadapt.Spec Cutadapt.Align Cutadapt.Adapters Cutadapt.Generated

/-! ### no empty k-mer anywhere in the tables -/

theorem searchSets_ne {thr : Nat → Nat} (hthr : ThrOK thr) (ad : Bytes) (had : 1 ≤ ad.length) (mo : Nat) (hmo : 1 ≤ mo)
    (b f i ind : Bool) : ∀ S ∈ searchSets ad mo thr b f i ind, ∀ k ∈ S.kmers, k ≠ [] := by
  intro S hS k hk
  simp only [searchSets, List.mem_append] at hS
  rcases hS with (hS | hS) | hS
  · split at hS
    · exact backSets_ne hthr ad had ind mo hmo S hS k hk
    · simp at hS
  · split at hS
    · simp only [List.mem_map] at hS
      obtain ⟨S', hS', rfl⟩ := hS
      simp only [List.mem_map] at hk
      obtain ⟨k', hk', rfl⟩ := hk
      have := backSets_ne hthr ad.reverse (by simpa using had) ind mo hmo S' hS' k' hk'
      simpa using this
    · simp at hS
  · split at hS
    · simp at hS; subst hS
      have hlt := hthr.lt ad.length had
      exact (kmerChunksList_spec ad _ (by omega) (by omega)).2.2.2 k (mem_kmerChunks.mp hk)
    · simp at hS

theorem entries_ne {thr : Nat → Nat} (hthr : ThrOK thr) {ad : Bytes} (had : 1 ≤ ad.length) {mo : Nat} (hmo : 1 ≤ mo)
    {b f i ind : Bool} {entries : List Entry} (h : createPositionsAndKmers ad mo thr b f i ind = .ok entries) :
    ∀ e ∈ entries, ∀ k ∈ e.kmers, k ≠ [] := by
  intro e he k hk
  obtain ⟨S, hS, hkS⟩ := removeRedundant_sub h he hk
  exact searchSets_ne hthr ad had mo hmo b f i ind S hS k hkS

/-! ### from a k-mer occurrence inside a search set's window to `kmers_present = True` -/

theorem finder_back (a : Adapter) (hthr : ThrOK a.thr) (hmo : 1 ≤ a.minOverlap) (s : Bytes) (hs1 : 1 ≤ s.length)
    (f i : Bool) (fin beyond : Bytes) (S : SearchSet)
    (hS : S ∈ createBackOverlapSearchsets s a.minOverlap a.thr a.indels) (k : Bytes) (hk : k ∈ S.kmers) (hkne : k ≠ [])
    (p : Nat) (hocc : OccursAt (kmerMatches a.adapterWildcards a.readWildcards) k fin p)
    (hwin : (fin.length : Int) + S.start ≤ p) :
    kmersPresent (makeKmerFinder a s true f i) fin beyond = true := by
  unfold makeKmerFinder
  split
  · rfl
  · rename_i entries hentries
    split
    · rfl
    · rename_i ms hms
      have hSs : S ∈ searchSets s a.minOverlap a.thr true f i a.indels := by
        simp only [searchSets, ↓reduceIte]
        exact List.mem_append_left _ (List.mem_append_left _ hS)
      obtain ⟨e, he, hke, hes, hest⟩ := removeRedundant_back hentries hSs (backSets_stop _ _ _ _ S hS) hk
      obtain ⟨me, hme, hms1, hms2, hkw, hlen, hsub⟩ := mkFinder_mem hms he hke
      have hne : ∀ w ∈ me.words, w ≠ [] := fun w hw => entries_ne hthr hs1 hmo hentries e he w (hsub w hw)
      have hneg := backSets_start_neg s a.minOverlap a.thr a.indels hmo S hS
      have hkl : 0 < k.length := List.length_pos_iff.mpr hkne
      have hn : 0 < fin.length := by have := hocc.1; omega
      simp only [kmersPresent, List.any_eq_true]
      refine ⟨me, hme, ?_⟩
      have hstop0 : me.stop = 0 := by rw [hms2, hes]; rfl
      rcases hest with h0 | hle
      · refine entryPresent_of_occurs_window _ _ me hne hlen fin beyond 0 fin.length ?_ k hkw p hocc (by omega)
          (by have := hocc.1; omega)
        rw [hms1, h0, hstop0]; exact windowOf_whole _ hn
      · have hlt : me.start < 0 := by rw [hms1]; omega
        refine entryPresent_of_occurs_window _ _ me hne hlen fin beyond ((fin.length : Int) + me.start).toNat
          (fin.length - ((fin.length : Int) + me.start).toNat) ?_ k hkw p hocc ?_ ?_
        · rw [hstop0]; exact windowOf_back me.start hlt fin.length hn
        · rw [hms1]; omega
        · have := hocc.1; omega

theorem finder_front (a : Adapter) (hthr : ThrOK a.thr) (hmo : 1 ≤ a.minOverlap) (s : Bytes) (hs1 : 1 ≤ s.length)
    (b i : Bool) (fin beyond : Bytes) (S : SearchSet)
    (hS : S ∈ createBackOverlapSearchsets s.reverse a.minOverlap a.thr a.indels) (k : Bytes) (hk : k ∈ S.kmers)
    (hkne : k ≠ []) (p : Nat) (hocc : OccursAt (kmerMatches a.adapterWildcards a.readWildcards) k.reverse fin p)
    (hwin : ((p + k.length : Nat) : Int) ≤ -S.start) :
    kmersPresent (makeKmerFinder a s b true i) fin beyond = true := by
  unfold makeKmerFinder
  split
  · rfl
  · rename_i entries hentries
    split
    · rfl
    · rename_i ms hms
      have hSs : (⟨0, some (-S.start), S.kmers.map List.reverse⟩ : SearchSet) ∈
          searchSets s a.minOverlap a.thr b true i a.indels := by
        simp only [searchSets, ↓reduceIte]
        exact List.mem_append_left _ (List.mem_append_right _ (List.mem_map.mpr ⟨S, hS, rfl⟩))
      obtain ⟨e, he, hke, hes, hest⟩ := removeRedundant_front hentries hSs rfl rfl
        (k := k.reverse) (List.mem_map.mpr ⟨k, hk, rfl⟩)
      obtain ⟨me, hme, hms1, hms2, hkw, hlen, hsub⟩ := mkFinder_mem hms he hke
      have hne : ∀ w ∈ me.words, w ≠ [] := fun w hw => entries_ne hthr hs1 hmo hentries e he w (hsub w hw)
      have hkl : 0 < k.length := List.length_pos_iff.mpr hkne
      have hn : 0 < fin.length := by have := hocc.1; simp at this; omega
      have hocc1 := hocc.1
      simp only [List.length_reverse] at hocc1
      simp only [kmersPresent, List.any_eq_true]
      refine ⟨me, hme, ?_⟩
      rcases hest with hnone | ⟨t', ht', hle⟩
      · refine entryPresent_of_occurs_window _ _ me hne hlen fin beyond 0 fin.length ?_ k.reverse hkw p hocc (by omega)
          (by simp; omega)
        rw [hms1, hes, hms2, hnone]; exact windowOf_whole _ hn
      · have ht1 : 1 ≤ t' := by omega
        refine entryPresent_of_occurs_window _ _ me hne hlen fin beyond 0 (min t'.toNat fin.length) ?_ k.reverse hkw p hocc
          (by omega) (by simp; omega)
        rw [hms1, hes, hms2, ht']; exact windowOf_front t' ht1 fin.length hn

end Cutadapt.Kmer

namespace Cutadapt.Kmer
open Cutadapt Cutadapt.Spec Cutadapt.Align Cutadapt.Adapters Cutadapt.Generated

/-! ### from the aligner's result to the k-mer occurrence -/

theorem occurs_transfer (cfg : Cfg) (k fin : Bytes) (g : UInt8 → UInt8) (hg : g = id ∨ g = asciiUpper)
    (hk : ∀ a ∈ k, a ≠ 0 ∧ tr upperTable a = a) (hfin : ∀ c ∈ fin, c ≠ 0 ∧ c < 128) (p : Nat)
    (h : OccursAt cfg.eq (k.map (encR cfg)) ((fin.map g).map (encQ cfg)) p) :
    OccursAt (kmerMatches cfg.wildRef cfg.wildQuery) k fin p := by
  obtain ⟨h1, h2⟩ := h
  simp only [List.length_map] at h1
  refine ⟨h1, fun j hj => ?_⟩
  obtain ⟨a, c, ha, hc, hac⟩ := h2 j (by simpa using hj)
  rw [List.getElem?_map, Option.map_eq_some_iff] at ha
  obtain ⟨a0, ha0, rfl⟩ := ha
  rw [List.getElem?_map, Option.map_eq_some_iff] at hc
  obtain ⟨c0, hc0, rfl⟩ := hc
  rw [List.getElem?_map, Option.map_eq_some_iff] at hc0
  obtain ⟨c1, hc1, rfl⟩ := hc0
  obtain ⟨hr0, hru⟩ := hk a0 (List.mem_of_getElem? ha0)
  obtain ⟨hf0, hf1⟩ := hfin c1 (List.mem_of_getElem? hc1)
  refine ⟨a0, c1, ha0, hc1, ?_⟩
  rcases hg with hg | hg
  · subst hg; exact rel_transfer cfg a0 c1 hr0 hru hf0 hf1 hac
  · subst hg; exact rel_transfer_upper cfg a0 c1 hr0 hru hf0 hf1 hac

theorem effLen_le_length (cfg : Cfg) (ref : Bytes) (m a b length : Nat) (h : length ≤ m) :
    effLen cfg ref m a b length ≤ length := by
  unfold effLen
  split
  · split <;> omega
  · omega

/-- side conditions on the adapter used below -/
structure OverlapSide (a : Adapter) : Prop where
  thr_ok : ThrOK a.thr
  overlap_pos : 1 ≤ a.minOverlap
  noindel_len : a.indels = false → a.seq.length ≤ indelCostOff

theorem indels_bound (a : Adapter) (hside : OverlapSide a) (flags : Nat) (sc : List Op) (L : Nat) (hL1 : 1 ≤ L)
    (hL : L ≤ a.seq.length)
    (hcost : cost (alignerCfg a flags).eq (alignerCfg a flags).indelCost sc ≤ a.thr L) :
    indels sc ≤ (if a.indels then a.thr L else 0) := by
  have hlt := hside.thr_ok.lt L hL1
  have hc : (alignerCfg a flags).indelCost = if a.indels then indelCostOn else indelCostOff := rfl
  generalize (alignerCfg a flags).indelCost = c at hcost hc
  have h1 := indels_mul_le_cost (alignerCfg a flags).eq c sc
  have e1 : indelCostOff = 100000 := rfl
  have e2 : indelCostOn = 1 := rfl
  cases hi : a.indels
  · have := hside.noindel_len hi
    simp only [hi, Bool.false_eq_true, ↓reduceIte] at hc ⊢
    rw [e1] at hc this; subst hc
    omega
  · simp only [hi, ↓reduceIte] at hc ⊢
    rw [e2] at hc; subst hc
    omega

theorem indelCost_pos (a : Adapter) (flags : Nat) : 1 ≤ (alignerCfg a flags).indelCost := by
  simp only [alignerCfg, mkCfg, indelCost]
  split <;> decide

/-- an adapter prefix aligned with the end of the sequence (3' overlap, or the whole adapter at the very end) -/
theorem present_back (a : Adapter) (hside : OverlapSide a) (s : Bytes)
    (hs_ok : ∀ c ∈ s, c ≠ 0 ∧ tr upperTable c = c) (hs_len : s.length = a.seq.length)
    (fin : Bytes) (g : UInt8 → UInt8) (hg : g = id ∨ g = asciiUpper) (hfin : ∀ c ∈ fin, c ≠ 0 ∧ c < 128)
    (beyond : Bytes) (flags : Nat) (f i : Bool) (L rs e : Nat)
    (hres : SoundResult (alignerCfg a flags) s (fin.map g) 0 L rs fin.length e) :
    kmersPresent (makeKmerFinder a s true f i) fin beyond = true := by
  obtain ⟨sc, hl, hr, hcost⟩ := hres.script
  have hov : a.minOverlap ≤ L := by have := hres.overlap; simpa [alignerCfg, mkCfg] using this
  have hLm : L ≤ s.length := hres.h_ae
  have hmo := hside.overlap_pos
  have he : e ≤ a.thr L := by
    have h1 := hres.tolerance
    have h2 := effLen_le_length (alignerCfg a flags) s s.length 0 L (L - 0) (by omega)
    have h3 := hside.thr_ok.mono _ _ h2
    have : (alignerCfg a flags).thr = a.thr := rfl
    rw [this] at h1
    simp only [Nat.sub_zero] at h1 h3
    omega
  rw [encodeRef_eq] at hl
  rw [encodeQuery_eq] at hr
  have hl' : lhs sc = (s.take L).map (encR (alignerCfg a flags)) := by
    rw [hl, List.map_take]; simp [seg]
  have hr' : rhs sc = ((fin.map g).map (encQ (alignerCfg a flags))).drop rs := by
    rw [hr]; unfold seg; rw [List.take_of_length_le (by simp)]
  have hrs : rs ≤ ((fin.map g).map (encQ (alignerCfg a flags))).length := by
    have := hres.h_rs; simpa using this
  obtain ⟨S, hS, _, k, hk, hkne, hchars, p, hocc, hwin⟩ :=
    overlap_level_safe hside.thr_ok s a.minOverlap hmo a.indels (alignerCfg a flags).eq (alignerCfg a flags).indelCost
      (indelCost_pos a flags) (encR (alignerCfg a flags)) _ rs L hov hLm sc hl' hr' hrs (by omega)
      (indels_bound a hside flags sc L (by omega) (by omega) (by omega))
  have hocc' := occurs_transfer (alignerCfg a flags) k fin g hg (fun c hc => hs_ok c (hchars c hc)) hfin p hocc
  simp only [List.length_map] at hwin
  exact finder_back a hside.thr_ok hmo s (by omega) f i fin beyond S hS k hk hkne p hocc' hwin

/-- an adapter suffix aligned with the start of the sequence (5' overlap, or the whole adapter at the very start) -/
theorem present_front (a : Adapter) (hside : OverlapSide a) (s : Bytes)
    (hs_ok : ∀ c ∈ s, c ≠ 0 ∧ tr upperTable c = c) (hs_len : s.length = a.seq.length)
    (fin : Bytes) (g : UInt8 → UInt8) (hg : g = id ∨ g = asciiUpper) (hfin : ∀ c ∈ fin, c ≠ 0 ∧ c < 128)
    (beyond : Bytes) (flags : Nat) (b i : Bool) (as re e : Nat)
    (hres : SoundResult (alignerCfg a flags) s (fin.map g) as s.length 0 re e) :
    kmersPresent (makeKmerFinder a s b true i) fin beyond = true := by
  obtain ⟨sc, hl, hr, hcost⟩ := hres.script
  have hov : a.minOverlap ≤ s.length - as := by have := hres.overlap; simpa [alignerCfg, mkCfg] using this
  have has : as ≤ s.length := hres.h_as
  have hmo := hside.overlap_pos
  have he : e ≤ a.thr (s.length - as) := by
    have h1 := hres.tolerance
    have h2 := effLen_le_length (alignerCfg a flags) s s.length as s.length (s.length - as) (by omega)
    have h3 := hside.thr_ok.mono _ _ h2
    have : (alignerCfg a flags).thr = a.thr := rfl
    rw [this] at h1
    omega
  have hre : re ≤ fin.length := by have := hres.h_re; simpa using this
  rw [encodeRef_eq] at hl
  rw [encodeQuery_eq] at hr
  have hl' : lhs sc.reverse = (s.reverse.take (s.length - as)).map (encR (alignerCfg a flags)) := by
    rw [lhs_reverse, hl]; unfold seg
    rw [List.take_of_length_le (by simp), List.reverse_drop, List.map_take, List.map_reverse]
    simp
  have hr' : rhs sc.reverse = ((fin.reverse.map g).map (encQ (alignerCfg a flags))).drop (fin.length - re) := by
    rw [rhs_reverse, hr]; unfold seg
    simp only [List.drop_zero]
    rw [List.reverse_take, ← List.map_reverse, ← List.map_reverse]
    simp
  obtain ⟨S, hS, _, k, hk, hkne, hchars, p, hocc, hwin⟩ :=
    overlap_level_safe hside.thr_ok s.reverse a.minOverlap hmo a.indels (alignerCfg a flags).eq
      (alignerCfg a flags).indelCost (indelCost_pos a flags) (encR (alignerCfg a flags)) _ (fin.length - re)
      (s.length - as) hov (by simp) sc.reverse hl' hr' (by simp) (by rw [cost_reverse]; omega)
      (by
        have : indels sc.reverse = indels sc := by simp [indels, List.filter_reverse]
        rw [this]
        exact indels_bound a hside flags sc (s.length - as) (by omega) (by omega) (by omega))
  have hocc' := occurs_transfer (alignerCfg a flags) k fin.reverse g hg
    (fun c hc => hs_ok c (List.mem_reverse.mp (hchars c hc)))
    (fun c hc => hfin c (List.mem_reverse.mp hc)) p hocc
  have hrev := occursAt_reverse hocc'
  simp only [List.reverse_reverse, List.length_reverse] at hrev
  simp only [List.length_map, List.length_reverse] at hwin
  have hp := hocc'.1
  simp only [List.length_reverse] at hp
  refine finder_front a hside.thr_ok hmo s (by omega) b i fin beyond S hS k hk hkne _ hrev ?_
  omega

end Cutadapt.Kmer

namespace Cutadapt.Kmer
open Cutadapt Cutadapt.Spec Cutadapt.Align Cutadapt.Adapters Cutadapt.Generated

/-! ### assembling -/

theorem cfg_startInRef (a : Adapter) (flags : Nat) : (alignerCfg a flags).startInRef = (flags &&& 1 != 0) := rfl
theorem cfg_startInQuery (a : Adapter) (flags : Nat) : (alignerCfg a flags).startInQuery = (flags &&& 2 != 0) := rfl
theorem cfg_stopInRef (a : Adapter) (flags : Nat) : (alignerCfg a flags).stopInRef = (flags &&& 4 != 0) := rfl
theorem cfg_stopInQuery (a : Adapter) (flags : Nat) : (alignerCfg a flags).stopInQuery = (flags &&& 8 != 0) := rfl

/-- the three ways in which a reported alignment is covered by a search set -/
theorem present_of_sound (a : Adapter) (hside : OverlapSide a) (hseq : ∀ c ∈ a.seq, c ≠ 0 ∧ tr upperTable c = c)
    (hne : 1 ≤ a.seq.length) (s : Bytes) (hs_ok : ∀ c ∈ s, c ≠ 0 ∧ tr upperTable c = c)
    (hs_len : s.length = a.seq.length) (fin : Bytes) (g : UInt8 → UInt8) (hg : g = id ∨ g = asciiUpper)
    (hfin : ∀ c ∈ fin, c ≠ 0 ∧ c < 128) (beyond : Bytes) (flags : Nat) (b f i : Bool) (as ae rs re e : Nat)
    (hres : SoundResult (alignerCfg a flags) s (fin.map g) as ae rs re e)
    (hcase : (i = true ∧ as = 0 ∧ ae = s.length) ∨ (b = true ∧ as = 0 ∧ re = fin.length) ∨
             (f = true ∧ ae = s.length ∧ rs = 0)) :
    kmersPresent (makeKmerFinder a s b f i) fin beyond = true := by
  rcases hcase with ⟨hi, h0, h1⟩ | ⟨hb, h0, h1⟩ | ⟨hf, h0, h1⟩
  · subst hi; subst h0; subst h1
    have hps : PartialSide a := ⟨hseq, hside.thr_ok.mono, hside.thr_ok.lt _ hne, hside.overlap_pos⟩
    exact makeKmerFinder_full a hps s fin g hg b f flags hs_ok hs_len hfin beyond rs re e hres
  · subst hb; subst h0; subst h1
    exact present_back a hside s hs_ok hs_len fin g hg hfin beyond flags f i ae rs e hres
  · subst hf; subst h0; subst h1
    exact present_front a hside s hs_ok hs_len fin g hg hfin beyond flags b i as re e hres

/-- a read aligned as a whole with an inner part of the adapter is shorter than the adapter plus its allowed errors -/
theorem inside_short (a : Adapter) (hside : OverlapSide a) (flags : Nat) (s Q : Bytes) (hs_len : s.length = a.seq.length)
    (as ae e : Nat) (hres : SoundResult (alignerCfg a flags) s Q as ae 0 Q.length e) (hlt : ae - as < s.length) :
    Q.length < a.seq.length + a.thr a.seq.length := by
  obtain ⟨sc, hl, hr, hcost⟩ := hres.script
  rw [encodeRef_eq] at hl
  rw [encodeQuery_eq] at hr
  have hlen := length_diff_le_indels sc
  rw [hl, hr] at hlen
  simp only [seg_length, List.length_map] at hlen
  have h1 := indels_mul_le_cost (alignerCfg a flags).eq (alignerCfg a flags).indelCost sc
  have hc := indelCost_pos a flags
  have h2 : indels sc ≤ indels sc * (alignerCfg a flags).indelCost := Nat.le_mul_of_pos_right _ hc
  have h3 := hres.tolerance
  have h4 := effLen_le_length (alignerCfg a flags) s s.length as ae (ae - as) (by omega)
  have h5 := hside.thr_ok.mono _ _ (Nat.le_trans h4 (by omega : ae - as ≤ s.length))
  have : (alignerCfg a flags).thr = a.thr := rfl
  rw [this] at h3
  have hae := hres.h_ae
  rw [← hs_len]
  omega

end Cutadapt.Kmer

namespace Cutadapt.Kmer
open Cutadapt Cutadapt.Spec Cutadapt.Align Cutadapt.Adapters Cutadapt.Generated

/-- alignments computed with the `anywhere` flag set, searched in both directions and in the whole read -/
theorem present_anywhere (a : Adapter) (hside : OverlapSide a) (hseq : ∀ c ∈ a.seq, c ≠ 0 ∧ tr upperTable c = c)
    (hne : 1 ≤ a.seq.length) (s : Bytes) (hs_ok : ∀ c ∈ s, c ≠ 0 ∧ tr upperTable c = c)
    (hs_len : s.length = a.seq.length) (fin : Bytes) (g : UInt8 → UInt8) (hg : g = id ∨ g = asciiUpper)
    (hfin : ∀ c ∈ fin, c ≠ 0 ∧ c < 128) (beyond : Bytes) (flags : Nat) (as ae rs re e : Nat)
    (hres : SoundResult (alignerCfg a flags) s (fin.map g) as ae rs re e)
    (hlong : ¬ fin.length < a.seq.length + a.thr a.seq.length) :
    kmersPresent (makeKmerFinder a s true true true) fin beyond = true := by
  apply present_of_sound a hside hseq hne s hs_ok hs_len fin g hg hfin beyond flags true true true as ae rs re e hres
  have hae := hres.h_ae
  rcases hres.startOne with h0 | h0 <;> rcases hres.stopOne with h1 | h1
  · exact Or.inl ⟨rfl, h0, h1⟩
  · exact Or.inr (Or.inl ⟨rfl, h0, by simpa using h1⟩)
  · exact Or.inr (Or.inr ⟨rfl, h1, h0⟩)
  · by_cases hfull : as = 0 ∧ ae = s.length
    · exact Or.inl ⟨rfl, hfull.1, hfull.2⟩
    · exfalso
      apply hlong
      subst h0
      have h1' : re = (fin.map g).length := h1
      subst h1'
      have := inside_short a hside flags s (fin.map g) hs_len as ae e hres (by omega)
      simpa using this

/-- **On `safeDomain` the repaired prefilter never rejects a read for which the aligner reports a match.** -/
theorem present_of_match (a : Adapter) (hside : OverlapSide a) (hseq : ∀ c ∈ a.seq, c ≠ 0 ∧ tr upperTable c = c)
    (hne : 1 ≤ a.seq.length) (hsound : LocateSound (alignerCfg a (flagsOf a)) a.seq.length) (read beyond : Bytes)
    (hdom : safeDomain a read = true) (mt : SingleMatch) (hm : matchTo a read = some mt) :
    kmersPresent (finderFor a) (finderInput a read) beyond = true := by
  simp only [safeDomain, shortReadPasses, Bool.and_eq_true, Bool.not_eq_true', Bool.and_eq_false_imp, List.all_eq_true, bne_iff_ne,
    decide_eq_true_eq, decide_eq_false_iff_not] at hdom
  obtain ⟨hread', hboth⟩ := hdom
  have hread : ∀ c ∈ read, c ≠ 0 ∧ c < 128 := fun c hc => by simpa using hread' c hc
  have hreadr : ∀ c ∈ read.reverse, c ≠ 0 ∧ c < 128 := fun c hc => hread c (List.mem_reverse.mp hc)
  have hseqr : ∀ c ∈ a.seq.reverse, c ≠ 0 ∧ tr upperTable c = c := fun c hc => hseq c (List.mem_reverse.mp hc)
  unfold matchTo at hm
  split at hm
  · cases hm
  · rename_i as ae rs re score errors hal
    clear hm
    cases hty' : a.ty
    · -- front
      simp only [alignment, hty'] at hal
      have hres := hsound _ _ _ _ _ _ _ _ rfl hal
      have hres' : SoundResult (alignerCfg a (flagsOf a)) a.seq (read.map id) as ae rs re errors := by simpa using hres
      simp only [finderFor, finderArgs, finderInput, hty']
      cases hfa : a.forceAnywhere
      · have hfl : flagsOf a = whereFront := by simp [flagsOf, hty', hfa]
        have hsr : (alignerCfg a (flagsOf a)).stopInRef = false := by rw [cfg_stopInRef, hfl]; decide
        have hae := hres.stopRef hsr
        apply present_of_sound a hside hseq hne a.seq hseq rfl read id (Or.inl rfl) hread beyond _ false true true
          as ae rs re errors hres'
        rcases hres.startOne with h0 | h0
        · exact Or.inl ⟨rfl, h0, hae⟩
        · exact Or.inr (Or.inr ⟨rfl, hae, h0⟩)
      · have hb : bothDirections a = true := by simp [bothDirections, finderArgs, hty', hfa]
        exact present_anywhere a hside hseq hne a.seq hseq rfl read id (Or.inl rfl) hread beyond _ as ae rs re errors
          hres' (hboth hb)
    · -- rightmost front: everything happens on the reversed sequences
      simp only [alignment, hty'] at hal
      split at hal
      · cases hal
      · rename_i rs' re' qs qe sc er hloc
        have hres := hsound _ _ _ _ _ _ _ _ (by simp) hloc
        have hres' : SoundResult (alignerCfg a (flagsOf a)) a.seq.reverse (read.reverse.map id) rs' re' qs qe er := by
          simpa using hres
        simp only [finderFor, finderArgs, finderInput, hty']
        cases hfa : a.forceAnywhere
        · have hfl : flagsOf a = whereBack := by simp [flagsOf, hty', hfa]
          have hsr : (alignerCfg a (flagsOf a)).startInRef = false := by rw [cfg_startInRef, hfl]; decide
          have has := hres.startRef hsr
          apply present_of_sound a hside hseq hne a.seq.reverse hseqr (by simp) read.reverse id (Or.inl rfl) hreadr beyond _
            true false true rs' re' qs qe er hres'
          rcases hres.stopOne with h1 | h1
          · exact Or.inl ⟨rfl, has, h1⟩
          · exact Or.inr (Or.inl ⟨rfl, has, h1⟩)
        · have hb : bothDirections a = true := by simp [bothDirections, finderArgs, hty', hfa]
          exact present_anywhere a hside hseq hne a.seq.reverse hseqr (by simp) read.reverse id (Or.inl rfl) hreadr beyond _
            rs' re' qs qe er hres' (by simpa using hboth hb)
    · -- back
      simp only [alignment, hty'] at hal
      have hres := hsound _ _ _ _ _ _ _ _ rfl hal
      have hres' : SoundResult (alignerCfg a (flagsOf a)) a.seq (read.map id) as ae rs re errors := by simpa using hres
      simp only [finderFor, finderArgs, finderInput, hty']
      cases hfa : a.forceAnywhere
      · have hfl : flagsOf a = whereBack := by simp [flagsOf, hty', hfa]
        have hsr : (alignerCfg a (flagsOf a)).startInRef = false := by rw [cfg_startInRef, hfl]; decide
        have has := hres.startRef hsr
        apply present_of_sound a hside hseq hne a.seq hseq rfl read id (Or.inl rfl) hread beyond _ true false true
          as ae rs re errors hres'
        rcases hres.stopOne with h1 | h1
        · exact Or.inl ⟨rfl, has, h1⟩
        · exact Or.inr (Or.inl ⟨rfl, has, h1⟩)
      · have hb : bothDirections a = true := by simp [bothDirections, finderArgs, hty', hfa]
        exact present_anywhere a hside hseq hne a.seq hseq rfl read id (Or.inl rfl) hread beyond _ as ae rs re errors
          hres' (hboth hb)
    · -- anywhere (aligns the upper-cased read)
      simp only [alignment, hty'] at hal
      have hres := hsound _ _ _ _ _ _ _ _ rfl hal
      simp only [finderFor, finderArgs, finderInput, hty']
      have hb : bothDirections a = true := by simp [bothDirections, finderArgs, hty']
      exact present_anywhere a hside hseq hne a.seq hseq rfl read asciiUpper (Or.inr rfl) hread beyond _ as ae rs re errors
        hres (hboth hb)
    · -- non-internal front
      simp only [alignment, hty'] at hal
      have hres := hsound _ _ _ _ _ _ _ _ rfl hal
      have hres' : SoundResult (alignerCfg a (flagsOf a)) a.seq (read.map id) as ae rs re errors := by simpa using hres
      simp only [finderFor, finderArgs, finderInput, hty']
      have hfl : flagsOf a = whereFrontNotInternal := by simp [flagsOf, hty']
      have h1 : (alignerCfg a (flagsOf a)).stopInRef = false := by rw [cfg_stopInRef, hfl]; decide
      have h2 : (alignerCfg a (flagsOf a)).startInQuery = false := by rw [cfg_startInQuery, hfl]; decide
      exact present_of_sound a hside hseq hne a.seq hseq rfl read id (Or.inl rfl) hread beyond _ _ true false
        as ae rs re errors hres' (Or.inr (Or.inr ⟨rfl, hres.stopRef h1, hres.startQuery h2⟩))
    · -- non-internal back
      simp only [alignment, hty'] at hal
      have hres := hsound _ _ _ _ _ _ _ _ rfl hal
      have hres' : SoundResult (alignerCfg a (flagsOf a)) a.seq (read.map id) as ae rs re errors := by simpa using hres
      simp only [finderFor, finderArgs, finderInput, hty']
      have hfl : flagsOf a = whereBackNotInternal := by simp [flagsOf, hty']
      have h1 : (alignerCfg a (flagsOf a)).startInRef = false := by rw [cfg_startInRef, hfl]; decide
      have h2 : (alignerCfg a (flagsOf a)).stopInQuery = false := by rw [cfg_stopInQuery, hfl]; decide
      exact present_of_sound a hside hseq hne a.seq hseq rfl read id (Or.inl rfl) hread beyond _ true _ false
        as ae rs re errors hres' (Or.inr (Or.inl ⟨rfl, hres.startRef h1, hres.stopQuery h2⟩))
    · -- anchored 5'
      cases hind : a.indels
      · simp [finderFor, finderArgs, hty', hind, kmersPresent]
      · simp only [alignment, hty', hind, Bool.not_true, Bool.false_eq_true, ↓reduceIte] at hal
        have hres := hsound _ _ _ _ _ _ _ _ rfl hal
        have hres' : SoundResult (alignerCfg a (flagsOf a)) a.seq (read.map id) as ae rs re errors := by simpa using hres
        simp only [finderFor, finderArgs, finderInput, hty', hind, Bool.not_true, Bool.false_eq_true, ↓reduceIte]
        have hfl : flagsOf a = wherePrefix := by simp [flagsOf, hty']
        have h1 : (alignerCfg a (flagsOf a)).stopInRef = false := by rw [cfg_stopInRef, hfl]; decide
        have h2 : (alignerCfg a (flagsOf a)).startInQuery = false := by rw [cfg_startInQuery, hfl]; decide
        exact present_of_sound a hside hseq hne a.seq hseq rfl read id (Or.inl rfl) hread beyond _ _ true false
          as ae rs re errors hres' (Or.inr (Or.inr ⟨rfl, hres.stopRef h1, hres.startQuery h2⟩))
    · -- anchored 3'
      cases hind : a.indels
      · simp [finderFor, finderArgs, hty', hind, kmersPresent]
      · simp only [alignment, hty', hind, Bool.not_true, Bool.false_eq_true, ↓reduceIte] at hal
        have hres := hsound _ _ _ _ _ _ _ _ rfl hal
        have hres' : SoundResult (alignerCfg a (flagsOf a)) a.seq (read.map id) as ae rs re errors := by simpa using hres
        simp only [finderFor, finderArgs, finderInput, hty', hind, Bool.not_true, Bool.false_eq_true, ↓reduceIte]
        have hfl : flagsOf a = whereSuffix := by simp [flagsOf, hty']
        have h1 : (alignerCfg a (flagsOf a)).startInRef = false := by rw [cfg_startInRef, hfl]; decide
        have h2 : (alignerCfg a (flagsOf a)).stopInQuery = false := by rw [cfg_stopInQuery, hfl]; decide
        exact present_of_sound a hside hseq hne a.seq hseq rfl read id (Or.inl rfl) hread beyond _ true _ false
          as ae rs re errors hres' (Or.inr (Or.inl ⟨rfl, hres.startRef h1, hres.stopQuery h2⟩))

/-- `match_to` with the repaired prefilter equals the aligner alone on `safeDomain` -/
theorem matchToFiltered_eq_of_safeDomain (a : Adapter) (hside : OverlapSide a)
    (hseq : ∀ c ∈ a.seq, c ≠ 0 ∧ tr upperTable c = c) (hne : 1 ≤ a.seq.length)
    (hsound : LocateSound (alignerCfg a (flagsOf a)) a.seq.length) (read beyond : Bytes)
    (hdom : safeDomain a read = true) : matchToFiltered a read beyond = matchTo a read := by
  unfold matchToFiltered
  cases hm : matchTo a read with
  | none => split <;> rfl
  | some mt => rw [present_of_match a hside hseq hne hsound read beyond hdom mt hm, Bool.or_true]; rfl

/-- **`match_to` with the prefilter equals the aligner alone on every ASCII read without NUL bytes**: short reads of adapters
    that search both overlap directions bypass the finder (`ShortReadsPassKmerFinder`), all others are in `safeDomain`. -/
theorem matchToFiltered_eq_of_ascii (a : Adapter) (hside : OverlapSide a)
    (hseq : ∀ c ∈ a.seq, c ≠ 0 ∧ tr upperTable c = c) (hne : 1 ≤ a.seq.length)
    (hsound : LocateSound (alignerCfg a (flagsOf a)) a.seq.length) (read beyond : Bytes)
    (hascii : asciiNoNul read = true) : matchToFiltered a read beyond = matchTo a read := by
  cases hs : shortReadPasses a read with
  | true => unfold matchToFiltered; rw [hs, Bool.true_or]; rfl
  | false =>
    refine matchToFiltered_eq_of_safeDomain a hside hseq hne hsound read beyond ?_
    unfold safeDomain; unfold asciiNoNul at hascii
    rw [hascii, hs]; rfl

end Cutadapt.Kmer
