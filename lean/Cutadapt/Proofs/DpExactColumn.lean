import Cutadapt.Proofs.DpExactMatrix
/-! Exactness of the banded DP, part 2: one column step keeps every cell at or below `D` wherever `D ≤ k`. -/
namespace Cutadapt.Align.Exact
open Cutadapt Cutadapt.Align Cutadapt.Spec Cutadapt.Generated Cutadapt.Align.Sound

/-- the cell is exact from above: if the true value is within the band limit, the cell does not exceed it -/
def UCell (ctx : Ctx) (j0 i t : Nat) (e : Entry) : Prop :=
  D ctx j0 i t ≤ ctx.cfg.k → e.cost ≤ D ctx j0 i t

variable {ctx : Ctx} {j0 : Nat}

theorem ucell_high {i t : Nat} {e : Entry} (h : ctx.cfg.k < D ctx j0 i t) : UCell ctx j0 i t e :=
  fun h' => by omega

theorem D_high_of_cost {i t : Nat} {e : Entry} (hu : UCell ctx j0 i t e) (h : ctx.cfg.k < e.cost) :
    ctx.cfg.k < D ctx j0 i t := by
  apply Nat.lt_of_not_le; intro hle; have := hu hle; omega

theorem cell_cost_mismatch (cfg : Cfg) (diag cur prev : Entry) :
    (cell cfg false diag cur prev).cost ≤ diag.cost + 1 ∧
    (cell cfg false diag cur prev).cost ≤ prev.cost + cfg.indelCost ∧
    (cell cfg false diag cur prev).cost ≤ cur.cost + cfg.indelCost := by
  unfold cell
  simp only [Bool.false_eq_true, if_false]
  split
  · next h => simp only [Bool.and_eq_true, decide_eq_true_eq] at h; simp only; omega
  · next h =>
    simp only [Bool.and_eq_true, decide_eq_true_eq] at h
    split <;> simp only <;> omega

theorem cell_U {i t : Nat} {diag cur prev : Entry} (b : Bool)
    (hb : b = true ↔ delta ctx i (j0 + t) = 0)
    (hd : UCell ctx j0 i t diag) (hc : UCell ctx j0 (i+1) t cur) (hp : UCell ctx j0 i (t+1) prev) :
    UCell ctx j0 (i+1) (t+1) (cell ctx.cfg b diag cur prev) := by
  intro hk
  by_cases hbt : b = true
  · subst hbt
    unfold cell
    simp only [if_true]
    have := D_match (ctx := ctx) (j0 := j0) i t (hb.mp rfl)
    rw [this] at hk ⊢
    exact hd hk
  · have hb' : b = false := by simpa using hbt
    subst hb'
    have hdel : delta ctx i (j0 + t) = 1 := by
      have := delta_le (ctx := ctx) i (j0 + t)
      have : delta ctx i (j0 + t) ≠ 0 := fun h => hbt (hb.mpr h)
      omega
    obtain ⟨c1, c2, c3⟩ := cell_cost_mismatch ctx.cfg diag cur prev
    rw [D_succ, hdel] at hk ⊢
    have h1 : D ctx j0 i t ≤ ctx.cfg.k → diag.cost ≤ D ctx j0 i t := hd
    have h2 : D ctx j0 (i+1) t ≤ ctx.cfg.k → cur.cost ≤ D ctx j0 (i+1) t := hc
    have h3 : D ctx j0 i (t+1) ≤ ctx.cfg.k → prev.cost ≤ D ctx j0 i (t+1) := hp
    by_cases g1 : D ctx j0 i t ≤ ctx.cfg.k <;> by_cases g2 : D ctx j0 (i+1) t ≤ ctx.cfg.k <;>
      by_cases g3 : D ctx j0 i (t+1) ≤ ctx.cfg.k <;>
      (first | have h1 := h1 g1 | skip) <;> (first | have h2 := h2 g2 | skip) <;>
      (first | have h3 := h3 g3 | skip) <;> omega


/-! ### one column -/

theorem D_row_startQ (h : ctx.cfg.startInQuery = true) (t : Nat) : D ctx j0 0 t = 0 := by
  cases t with
  | zero => exact D_00
  | succ t => rw [D_row0]; simp [h]

theorem D_row_noStartQ (h : ctx.cfg.startInQuery = false) (t : Nat) : D ctx j0 0 t = t * ctx.cfg.indelCost := by
  cases t with
  | zero => rw [D_00]; simp
  | succ t => rw [D_row0]; simp [h]

theorem stepCell0_U {t : Nat} {c0 : Entry} (h : UCell ctx j0 0 t c0) :
    UCell ctx j0 0 (t+1) (stepCell0 ctx.cfg c0) := by
  unfold stepCell0
  intro hk
  by_cases hq : ctx.cfg.startInQuery = true
  · simp only [hq, if_true]
    rw [D_row_startQ hq] at hk ⊢
    have := h (by rw [D_row_startQ hq]; omega)
    rw [D_row_startQ hq] at this
    exact this
  · have hq' : ctx.cfg.startInQuery = false := by simpa using hq
    simp only [hq', Bool.false_eq_true, if_false]
    rw [D_row_noStartQ hq'] at hk ⊢
    rw [Nat.add_mul, Nat.one_mul] at hk ⊢
    have := h (by rw [D_row_noStartQ hq']; omega)
    rw [D_row_noStartQ hq'] at this
    omega

/-- what is known about cell `i` of the old column -/
def OldU (ctx : Ctx) (j0 t last i : Nat) (e : Entry) : Prop :=
  UCell ctx j0 i t e ∧ (last < i → ctx.cfg.k < e.cost) ∧ (last ≤ i → i < ctx.ref.length → ctx.cfg.k < e.cost)

theorem stale_U {t : Nat} : ∀ (l : List Entry) (i : Nat) (d : Entry), UCell ctx j0 i t d → ctx.cfg.k < d.cost →
    AllFrom (fun i' e => UCell ctx j0 i' t e ∧ ctx.cfg.k < e.cost) (i+1) l →
    AllFrom (fun i' e => UCell ctx j0 i' (t+1) e) (i+1) l
  | [], _, _, _, _, _ => trivial
  | e :: es, i, d, hd, hdc, ⟨⟨he, hec⟩, hrest⟩ => by
    refine ⟨?_, stale_U es (i+1) e he hec hrest⟩
    apply ucell_high
    have := D_high_of_cost hd hdc
    have := D_diag (ctx := ctx) (j0 := j0) i t
    omega

theorem fillCells_U {t : Nat} (q : Sym) (hq : q = ctx.query.getD (j0 + t) 0) (last : Nat) :
    ∀ (olds : List Entry) (rs : List Sym) (i0 : Nat) (diag prevNew : Entry),
    rs = ctx.ref.drop i0 → olds.length ≤ rs.length →
    OldU ctx j0 t last i0 diag → UCell ctx j0 i0 (t+1) prevNew →
    AllFrom (OldU ctx j0 t last) (i0+1) olds →
    AllFrom (fun i e => UCell ctx j0 i (t+1) e) (i0+1)
      (fillCells ctx.cfg ctx.ascii q last (i0+1) diag prevNew rs olds)
  | [], rs, i0, diag, prevNew, _, _, _, _, _ => by
    cases rs <;> simp [fillCells, AllFrom]
  | cur :: olds, [], i0, diag, prevNew, _, hlen, _, _, _ => by simp at hlen
  | cur :: olds, r :: rs, i0, diag, prevNew, hrs, hlen, hdg, hp, ⟨hcur, hrest⟩ => by
    have hi0 : i0 < ctx.ref.length := by
      apply Nat.lt_of_not_le; intro hge
      rw [List.drop_eq_nil_of_le hge] at hrs; simp at hrs
    rw [List.drop_eq_getElem_cons hi0] at hrs
    have hr : r = ctx.ref[i0] := (List.cons.inj hrs).1
    have hrs' : rs = ctx.ref.drop (i0+1) := (List.cons.inj hrs).2
    unfold fillCells
    by_cases hle : i0 + 1 ≤ last
    · simp only [hle, if_true]
      have hb : charsEqual ctx.ascii r q = true ↔ delta ctx i0 (j0 + t) = 0 := by
        have e : ctx.ref.getD i0 0 = ctx.ref[i0] := by
          rw [List.getD_eq_getElem?_getD, List.getElem?_eq_getElem hi0]; rfl
        unfold delta Ctx.eq
        rw [hr, hq, e]
        split <;> simp_all
      have hcell := cell_U (ctx := ctx) (j0 := j0) (charsEqual ctx.ascii r q) hb hdg.1 hcur.1 hp
      exact ⟨hcell, fillCells_U q hq last olds rs (i0+1) cur _ hrs' (by simpa using hlen) hcur hcell hrest⟩
    · simp only [hle, if_false]
      have hdc : ctx.cfg.k < diag.cost := hdg.2.2 (by omega) hi0
      refine stale_U (cur :: olds) i0 diag hdg.1 hdc ?_
      refine allFrom_mono (cur :: olds) (i0+1) ?_ ⟨hcur, hrest⟩
      intro i' hi' e he
      exact ⟨he.1, he.2.1 (by omega)⟩

theorem fillCells_length (cfg : Cfg) (ascii : Bool) (q : Sym) (last : Nat) :
    ∀ (olds : List Entry) (rs : List Sym) (i : Nat) (diag prevNew : Entry), olds.length ≤ rs.length →
    (fillCells cfg ascii q last i diag prevNew rs olds).length = olds.length
  | [], rs, _, _, _, _ => by cases rs <;> simp [fillCells]
  | _ :: _, [], _, _, _, h => by simp at h
  | cur :: olds, r :: rs, i, diag, prevNew, h => by
    unfold fillCells
    split
    · simp only [List.length_cons]
      rw [fillCells_length cfg ascii q last olds rs (i+1) cur _ (by simpa using h)]
    · rfl

/-- exactness-from-above of a column, together with the lower edge of the band -/
structure UInv (ctx : Ctx) (j0 t last : Nat) (col : List Entry) : Prop where
  u : ∀ i, i ≤ ctx.ref.length → UCell ctx j0 i t (col.getD i default)
  edge : ∀ i, last ≤ i → i < ctx.ref.length → ctx.cfg.k < (col.getD i default).cost

theorem stepColumn_U {t j : Nat} (hj : j = j0 + t) (hjn : j < ctx.query.length) {last : Nat} {col : List Entry}
    (h : ColInv ctx j last col) (hu : UInv ctx j0 t last col) :
    ∀ i, i ≤ ctx.ref.length →
      UCell ctx j0 i (t+1) ((stepColumn ctx.cfg ctx.ascii ctx.ref ctx.query[j] last col).getD i default) := by
  obtain ⟨hlen, hcells⟩ := h
  have hall : AllFrom (OldU ctx j0 t last) 0 col :=
    allFrom_of_getD col 0 (fun i hi => by
      rw [Nat.zero_add]
      exact ⟨hu.u i (by omega), (hcells i (by omega)).2.2, hu.edge i⟩)
  match col, hlen, hall with
  | c0 :: rest, hlen, ⟨h0, hrest⟩ =>
    have hlen' : rest.length = ctx.ref.length := by simpa using hlen
    have h0' := stepCell0_U h0.1
    have hq : ctx.query[j] = ctx.query.getD (j0 + t) 0 := by
      subst hj
      rw [List.getD_eq_getElem?_getD, List.getElem?_eq_getElem hjn]; rfl
    have hf := fillCells_U (ctx := ctx) (j0 := j0) (t := t) ctx.query[j] hq last rest ctx.ref 0 c0
      (stepCell0 ctx.cfg c0) (by simp) (by omega) h0 h0' hrest
    have hnew : AllFrom (fun i e => UCell ctx j0 i (t+1) e) 0
        (stepColumn ctx.cfg ctx.ascii ctx.ref ctx.query[j] last (c0 :: rest)) := ⟨h0', hf⟩
    have hlenNew : (stepColumn ctx.cfg ctx.ascii ctx.ref ctx.query[j] last (c0 :: rest)).length
        = ctx.ref.length + 1 := by
      show (_ :: _).length = _
      rw [List.length_cons, fillCells_length _ _ _ _ _ _ _ _ _ (by omega), hlen']
    intro i hi
    have := allFrom_getD _ 0 hnew i (by rw [hlenNew]; omega)
    simpa using this


/-- rows below the band of column `t` stay above `k` in column `t+1` (Ukkonen's cut-off) -/
theorem D_high_beyond {t last : Nat} {col : List Entry} (hu : UInv ctx j0 t last col) :
    ∀ i, last < i → i ≤ ctx.ref.length → ctx.cfg.k < D ctx j0 i (t+1) := by
  intro i h1 h2
  obtain ⟨i', rfl⟩ : ∃ i', i = i' + 1 := ⟨i - 1, by omega⟩
  have hc := hu.edge i' (by omega) (by omega)
  have := D_high_of_cost (hu.u i' (by omega)) hc
  have := D_diag (ctx := ctx) (j0 := j0) i' t
  omega

/-! ### the initial column -/

theorem initEntry_U (hcase : j0 = 0 ∨ ctx.cfg.startInQuery = true) (i : Nat) :
    UCell ctx j0 i 0 (initEntry ctx.cfg j0 i) := by
  intro _
  rw [D_col0]
  unfold initEntry
  split
  · next h1 h2 =>
    have : j0 = 0 := by rcases hcase with h | h; exact h; rw [h2] at h; cases h
    subst this; simp [h1]
  · next h1 h2 =>
    have : j0 = 0 := by rcases hcase with h | h; exact h; rw [h2] at h; cases h
    subst this; simp
  · next h1 h2 => simp [h1]
  · next h1 h2 =>
    simp only [h1, and_true]
    split
    · next h => subst h; simp
    · exact Nat.mul_le_mul_right _ (Nat.min_le_left _ _)

theorem initEntry_edge {cfg : Cfg} (hc : 1 ≤ cfg.indelCost) (hs : cfg.startInRef = false) (i minN : Nat)
    (hi : cfg.k + 1 ≤ i) : cfg.k < (initEntry cfg minN i).cost := by
  unfold initEntry
  rw [hs]
  split
  · simp only
    have := Nat.le_mul_of_pos_right (max i minN) hc
    omega
  · simp_all
  · simp only
    have := Nat.le_mul_of_pos_right i hc
    omega
  · simp_all

theorem init_U (hc : 1 ≤ ctx.cfg.indelCost) (hcase : j0 = 0 ∨ ctx.cfg.startInQuery = true) :
    UInv ctx j0 0 (if ctx.cfg.startInRef then ctx.ref.length else min ctx.ref.length (ctx.cfg.k + 1))
      ((List.range (ctx.ref.length + 1)).map (initEntry ctx.cfg j0)) := by
  refine ⟨fun i hi => ?_, fun i h1 h2 => ?_⟩
  · rw [getD_map_range _ _ _ _ hi]; exact initEntry_U hcase i
  · rw [getD_map_range _ _ _ _ (by omega)]
    by_cases hs : ctx.cfg.startInRef = true
    · simp only [hs, if_true] at h1; omega
    · have hs' : ctx.cfg.startInRef = false := by simpa using hs
      simp only [hs', Bool.false_eq_true, if_false] at h1
      exact initEntry_edge hc hs' i j0 (by omega)

end Cutadapt.Align.Exact
