import Cutadapt.Spec.AdapterNotation
/-! A decidable check for the well-formedness conditions of `Cutadapt.Notation` (used to exhibit concrete instances). -/
namespace Cutadapt.ParserProofs
open Cutadapt.Parser Cutadapt.Notation

def paramWfB (q : Param) : Bool :=
  match q.name with
  | .e | .maxErrors | .maxErrorRate =>
    (match q.value with
     | some (.int _) => true
     | some (.dec _ fr) => !fr.isEmpty
     | none => false)
  | .o | .minOverlap =>
    (match q.value with
     | some (.int _) => true
     | _ => false)
  | _ => q.value.isNone

theorem paramWfB_sound {q : Param} (h : paramWfB q = true) : q.WF := by
  unfold paramWfB at h
  unfold Param.WF
  cases hn : q.name <;> rw [hn] at h <;> simp only at h ⊢
  all_goals
    cases hv : q.value with
    | none => simp [hv] at h ⊢
    | some l =>
      cases l with
      | int n => simp [hv, NumLit.WF] at h ⊢
      | dec ip fr => cases fr <;> simp [hv, NumLit.WF] at h ⊢

def runWfB (r : Run) : Bool :=
  seqChars.contains r.c && (match r.rep with | none => true | some n => decide (n ≤ 10000))

theorem runWfB_sound {r : Run} (h : runWfB r = true) : r.WF := by
  simp only [runWfB, Bool.and_eq_true, List.contains_iff_mem] at h
  refine ⟨h.1, ?_⟩
  intro n hn
  simpa [hn] using h.2

def edgeB (sq : Str) : Bool :=
  !sq.isEmpty && (match sq.head? with | some c => !isX c | none => true) &&
    (match sq.getLast? with | some c => !isX c | none => true)

theorem edgeB_sound {sq : Str} (h : edgeB sq = true) : edgeOK sq := by
  simp only [edgeB, Bool.and_eq_true, Bool.not_eq_true', List.isEmpty_eq_false_iff] at h
  obtain ⟨⟨h1, h2⟩, h3⟩ := h
  refine ⟨h1, ?_, ?_⟩
  · intro c hc; rw [hc] at h2; simpa using h2
  · intro c hc; rw [hc] at h3; simpa using h3

def partWfB (p : Part) : Bool :=
  (match p.name with | none => true | some n => n.all (fun c => nameChars.contains c)) &&
  p.runs.all runWfB && p.params.all paramWfB && edgeB (expandRuns p.runs)

theorem partWfB_sound {p : Part} (h : partWfB p = true) : p.WF := by
  simp only [partWfB, Bool.and_eq_true, List.all_eq_true] at h
  obtain ⟨⟨⟨h1, h2⟩, h3⟩, h4⟩ := h
  refine ⟨?_, fun r hr => runWfB_sound (h2 r hr), fun q hq => paramWfB_sound (h3 q hq), edgeB_sound h4⟩
  intro n hn c hc
  rw [hn] at h1
  simp only [List.all_eq_true, List.contains_iff_mem] at h1
  exact h1 c hc

def noAnywhereB (p : Part) : Bool := p.params.all (fun q => decide (q.name ≠ .anywhere))

theorem noAnywhereB_sound {p : Part} (h : noAnywhereB p = true) : p.noAnywhere := by
  simp only [noAnywhereB, List.all_eq_true, decide_eq_true_eq] at h
  exact h

def bodyWfB : Body → Bool
  | .single p => partWfB p
  | .linked f b => partWfB f && partWfB b && noAnywhereB f && noAnywhereB b

theorem bodyWfB_sound {b : Body} (h : bodyWfB b = true) : b.WF := by
  cases b with
  | single p => exact partWfB_sound h
  | linked f bk =>
    simp only [bodyWfB, Bool.and_eq_true] at h
    exact ⟨partWfB_sound h.1.1.1, partWfB_sound h.1.1.2, noAnywhereB_sound h.1.2, noAnywhereB_sound h.2⟩

def fileParamB (q : Param) : Bool :=
  paramWfB q && (match q.name with
    | .e | .maxErrors | .maxErrorRate | .o | .minOverlap | .indels | .noindels => true
    | _ => false)

theorem fileParamB_sound {q : Param} (h : fileParamB q = true) : q.WF ∧ fileParamName q.name := by
  simp only [fileParamB, Bool.and_eq_true] at h
  refine ⟨paramWfB_sound h.1, ?_⟩
  unfold fileParamName
  cases hn : q.name <;> rw [hn] at h <;> simp at h ⊢

def recordWfB (a : FileAnchor) (r : Record) : Bool :=
  bodyWfB r.body && isAscii r.header &&
  (match a with
   | .caret => r.body.first.name.isNone && decide (r.body.first.restr = .none)
   | .dollar => decide (r.body.last.restr = .none) && r.body.last.params.isEmpty
   | .none => true)

theorem recordWfB_sound {a : FileAnchor} {r : Record} (h : recordWfB a r = true) : r.WF a := by
  simp only [recordWfB, Bool.and_eq_true] at h
  obtain ⟨⟨h1, h2⟩, h3⟩ := h
  refine ⟨bodyWfB_sound h1, h2, ?_, ?_⟩
  · intro ha; subst ha
    simp only [Bool.and_eq_true, Option.isNone_iff_eq_none, decide_eq_true_eq] at h3
    exact h3
  · intro ha; subst ha
    simp only [Bool.and_eq_true, decide_eq_true_eq, List.isEmpty_iff] at h3
    exact h3

def specWfB : Spec → Bool
  | .plain _ b => bodyWfB b
  | .file _ a path fparams records =>
    path.all (fun c => c != ';' && decide (c.toNat < 128)) && fparams.all fileParamB && records.all (recordWfB a)

theorem specWfB_sound {s : Spec} (h : specWfB s = true) : s.WF := by
  cases s with
  | plain o b => exact bodyWfB_sound h
  | file o a path fparams records =>
    simp only [specWfB, Bool.and_eq_true, List.all_eq_true, bne_iff_ne, ne_eq, decide_eq_true_eq] at h
    exact ⟨h.1.1, fun q hq => fileParamB_sound (h.1.2 q hq), fun r hr => recordWfB_sound (h.2 r hr)⟩

end Cutadapt.ParserProofs
