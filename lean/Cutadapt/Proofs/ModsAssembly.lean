import Cutadapt.Proofs.ModsInfo
/-! The pipeline assembly (`makeSteps`, `makeModsSingle`, `makeSingle`): shape of the lists it builds. Core Lean only.
    The proofs walk through the join points of the `do` blocks (`extract_lets`), innermost first. -/
namespace Cutadapt

/-- the info writer is in the list and only text writers precede it -/
def InfoFirst (steps : List Step) : Prop :=
  ∃ pre post idx, steps = pre ++ Step.infoWriter idx :: post ∧ ∀ s ∈ pre, s.isTextWriter = true

theorem InfoFirst.append {steps : List Step} (h : InfoFirst steps) (ys : List Step) : InfoFirst (steps ++ ys) := by
  obtain ⟨pre, post, idx, e, hp⟩ := h
  exact ⟨pre, post ++ ys, idx, by rw [e]; simp, hp⟩

theorem throw_bind_ne_ok {α β : Type} (e : Err) (k : α → Except Err β) (v : β) :
    ((throw e : Except Err α) >>= k) ≠ .ok v := by
  simp [throw, throwThe, MonadExcept.throw, bind, Except.bind]

theorem ite_ok_cases {β : Type} (C : Prop) [Decidable C] (A B : Except Err β) (v : β)
    (h : (if C then A else B) = .ok v) : (C ∧ A = .ok v) ∨ (¬C ∧ B = .ok v) := by
  by_cases hc : C
  · rw [if_pos hc] at h; exact Or.inl ⟨hc, h⟩
  · rw [if_neg hc] at h; exact Or.inr ⟨hc, h⟩

/-- **`make_pipeline_from_args` puts the info writer before every filter** (only the rest-file writer can precede it) -/
theorem makeSteps_infoFirst (o : Opts) (names names2 : List String) (p : String) (hi : o.infoFile = some p) (res)
    (h : makeSteps o names names2 = .ok res) : InfoFirst res.1 := by
  unfold makeSteps at h
  extract_lets mode f0 steps0 both untrimmedGiven jp6 ws1 un p1 w1 extra keys ws override w jp5 jp4 jp3 jp2 jp1 jp0 at h
  have s6 : ∀ r f steps res, InfoFirst steps → jp6 r f steps = .ok res → InfoFirst res.1 := by
    intro r f steps res hg h
    simp only [jp6, pure, Except.pure, Except.ok.injEq] at h
    rw [← h]; exact hg
  have s5 : ∀ r f steps res, InfoFirst steps → jp5 r f steps = .ok res → InfoFirst res.1 := by
    intro r f steps res hg h
    simp only [jp5] at h
    exact s6 () _ _ _ (hg.append _) h
  have s4 : ∀ r f steps res, InfoFirst steps → jp4 r f steps = .ok res → InfoFirst res.1 := by
    intro r f steps res hg h
    dsimp -zeta only [jp4] at h
    extract_lets fw jA3 jA2 jA1 jA0 at h
    have a3 : ∀ r steps res, InfoFirst steps → jA3 r steps = .ok res → InfoFirst res.1 := by
      intro r steps res hg h
      dsimp -zeta only [jA3] at h
      extract_lets jC st1 st2 st3 jD at h
      have c : ∀ r res, jC r = .ok res → InfoFirst res.1 := by
        intro r res h
        dsimp -zeta only [jC, bind, Except.bind] at h
        split at h
        · simp at h
        · exact s6 () _ _ _ (hg.append _) h
      have d : ∀ r res, jD r = .ok res → InfoFirst res.1 := by
        intro r res h
        dsimp -zeta only [jD] at h
        cases hdm : demuxMode o with
        | error e => rw [hdm] at h; exact absurd h (by simp [bind, Except.bind])
        | ok dm =>
          rw [hdm] at h
          dsimp -zeta only [bind, Except.bind] at h
          extract_lets jF jE at h
          have ff : ∀ r res, jF r = .ok res → InfoFirst res.1 := by
            intro r res h
            dsimp -zeta only [jF] at h
            split at h
            · split at h
              · simp at h
              · extract_lets f1 ws2 jG at h
                split at h
                · exact s6 () _ _ _ (hg.append _) h
                · exact s6 () _ _ _ (hg.append _) h
            · split at h
              · split at h
                · simp [throw, throwThe, MonadExcept.throw] at h
                · exact c () _ h
              · split at h
                · exact s5 () _ _ _ (hg.append _) h
                · split at h
                  · exact s5 () _ _ _ (hg.append _) h
                  · split at h
                    · exact s5 () _ _ _ (hg.append _) h
                    · exact s5 () _ _ _ hg h
          have e : ∀ r res, jE r = .ok res → InfoFirst res.1 := by
            intro r res h
            dsimp -zeta only [jE] at h
            split at h
            · simp [throw, throwThe, MonadExcept.throw] at h
            · exact ff () _ h
          split at h
          · simp [throw, throwThe, MonadExcept.throw] at h
          · exact e () _ h
      rcases ite_ok_cases _ _ _ _ h with ⟨_, h⟩ | ⟨_, h⟩
      · exact absurd h (throw_bind_ne_ok _ _ _)
      · exact d () _ h
    have a2 : ∀ r steps res, InfoFirst steps → jA2 r steps = .ok res → InfoFirst res.1 := by
      intro r steps res hg h
      dsimp -zeta only [jA2] at h
      split at h
      · exact a3 () _ _ (hg.append _) h
      · exact a3 () _ _ hg h
    have a1 : ∀ r steps res, InfoFirst steps → jA1 r steps = .ok res → InfoFirst res.1 := by
      intro r steps res hg h
      dsimp -zeta only [jA1] at h
      split at h
      · split at h
        · exact a2 () _ _ (hg.append _) h
        · exact a2 () _ _ hg h
      · exact a2 () _ _ hg h
    have a0 : ∀ r steps res, InfoFirst steps → jA0 r steps = .ok res → InfoFirst res.1 := by
      intro r steps res hg h
      dsimp -zeta only [jA0] at h
      split at h
      · split at h
        · exact a1 () _ _ (hg.append _) h
        · exact a1 () _ _ hg h
      · exact a1 () _ _ hg h
    split at h
    · exact a0 () _ _ (hg.append _) h
    · exact a0 () _ _ hg h
  have s3 : ∀ r f steps res, InfoFirst steps → jp3 r f steps = .ok res → InfoFirst res.1 := by
    intro r f steps res hg h
    dsimp -zeta only [jp3] at h
    split at h
    · split at h
      · exact absurd h (throw_bind_ne_ok _ _ _)
      · exact s4 () _ _ _ hg h
    · extract_lets fL stL jL at h
      have l : ∀ r res, jL r = .ok res → InfoFirst res.1 := by
        intro r res h
        dsimp -zeta only [jL] at h
        exact s4 () _ _ _ (hg.append _) h
      split at h
      · exact absurd h (throw_bind_ne_ok _ _ _)
      · exact l () _ h
  have s2 : ∀ r f steps res, InfoFirst steps → jp2 r f steps = .ok res → InfoFirst res.1 := by
    intro r f steps res hg h
    dsimp -zeta only [jp2] at h
    split at h
    · split at h
      · exact absurd h (throw_bind_ne_ok _ _ _)
      · exact s3 () _ _ _ hg h
    · extract_lets fL stL jL at h
      have l : ∀ r res, jL r = .ok res → InfoFirst res.1 := by
        intro r res h
        dsimp -zeta only [jL] at h
        exact s3 () _ _ _ (hg.append _) h
      split at h
      · exact absurd h (throw_bind_ne_ok _ _ _)
      · exact l () _ h
  have s1 : ∀ r f steps res, InfoFirst steps → jp1 r f steps = .ok res → InfoFirst res.1 := by
    intro r f steps res hg h
    dsimp -zeta only [jp1] at h
    split at h
    · exact s2 () _ _ _ (hg.append _) h
    · exact s2 () _ _ _ hg h
  have s0 : ∀ r f steps res, (∀ s ∈ steps, s.isTextWriter = true) → jp0 r f steps = .ok res → InfoFirst res.1 := by
    intro r f steps res hpre h
    dsimp -zeta only [jp0] at h
    split at h
    · exact s1 () _ _ _ ⟨steps, [], _, rfl, hpre⟩ h
    · rename_i hx
      exact absurd hi (by intro e; exact hx _ e)
  split at h
  · exact s0 () _ _ _ (by simp [steps0, Step.isTextWriter]) h
  · exact s0 () _ _ _ (by simp [steps0]) h

/-- `makeSingle` succeeds exactly with the steps of `makeSteps` and the modifiers of `makeModsSingle` -/
theorem makeSingle_ok (o : Opts) (ads : List Matchable) (p : SinglePipeline) (fs : Files)
    (h : makeSingle o ads = .ok (p, fs)) :
    ∃ steps mods, makeSteps o (namesOf ads) [] = .ok (steps, fs) ∧ makeModsSingle o ads = .ok mods ∧
      p = ⟨ads, mods, steps⟩ := by
  unfold makeSingle at h
  extract_lets jp at h
  rcases ite_ok_cases _ _ _ _ h with ⟨_, h⟩ | ⟨_, h⟩
  · exact absurd h (throw_bind_ne_ok _ _ _)
  · replace h : (do
        let __x ← makeSteps o (namesOf ads) []
        match __x with
          | (steps, f) => do
            let mods ← makeModsSingle o ads
            pure (({ ads := ads, mods := mods, steps := steps } : SinglePipeline), f)) = Except.ok (p, fs) := h
    cases hs : makeSteps o (namesOf ads) [] with
    | error e => rw [hs] at h; simp [bind, Except.bind] at h
    | ok v =>
      obtain ⟨steps, f⟩ := v
      rw [hs] at h
      cases hm : makeModsSingle o ads with
      | error e => rw [hm] at h; simp [bind, Except.bind] at h
      | ok mods =>
        rw [hm] at h
        simp only [bind, Except.bind, pure, Except.pure, Except.ok.injEq, Prod.mk.injEq] at h
        exact ⟨steps, mods, by rw [← h.2], rfl, h.1.symm⟩

/-- the modifier list the CLI builds for single-end input, written out -/
theorem makeModsSingle_ok (o : Opts) (ads : List Matchable) (mods : List SMod) (h : makeModsSingle o ads = .ok mods) :
    ∃ cuts, cutMods o.cut = .ok cuts ∧
      mods =
        (cuts ++ (match o.nextseqTrim with | some c => [SMod.nextseq c o.qualityBase] | none => []) ++
            (qtrimOf o.qualityCutoff o.qualityBase).toList) ++
          (if ads.isEmpty then []
           else if o.revcomp then
             [SMod.revcomp ⟨ads, o.times, o.action⟩ (!o.renameGiven)
               (cuts ++ (match o.nextseqTrim with | some c => [SMod.nextseq c o.qualityBase] | none => []) ++
                 (qtrimOf o.qualityCutoff o.qualityBase).toList).isEmpty]
           else
             [SMod.adapters ⟨ads, o.times, o.action⟩
               (cuts ++ (match o.nextseqTrim with | some c => [SMod.nextseq c o.qualityBase] | none => []) ++
                 (qtrimOf o.qualityCutoff o.qualityBase).toList).isEmpty]) ++
          (if o.polyA then [SMod.polyA false] else []) ++
          (match o.length with | some l => [SMod.shorten l] | none => []) ++ bothEndMods o ++
          (match o.rename with | some t => [SMod.rename t] | none => []) := by
  unfold makeModsSingle at h
  extract_lets cutter at h
  cases hc : cutMods o.cut with
  | error e => rw [hc] at h; simp [bind, Except.bind] at h
  | ok cuts =>
    rw [hc] at h
    dsimp -zeta only [bind, Except.bind] at h
    extract_lets pre adm j3 j2 j1 at h
    refine ⟨cuts, rfl, ?_⟩
    rcases ite_ok_cases _ _ _ _ h with ⟨_, h⟩ | ⟨_, h⟩
    · simp [throw, throwThe, MonadExcept.throw] at h
    · dsimp -zeta only [j1] at h
      rcases ite_ok_cases _ _ _ _ h with ⟨_, h⟩ | ⟨_, h⟩
      · simp [throw, throwThe, MonadExcept.throw] at h
      · dsimp -zeta only [j2] at h
        rcases ite_ok_cases _ _ _ _ h with ⟨_, h⟩ | ⟨_, h⟩
        · simp [throw, throwThe, MonadExcept.throw] at h
        · dsimp -zeta only [j3, pure, Except.pure] at h
          simp only [Except.ok.injEq] at h
          exact h.symm

theorem cutMods_cuts (c : List Int) (cuts : List SMod) (h : cutMods c = .ok cuts) : ∀ m ∈ cuts, ∃ n, m = SMod.cut n := by
  unfold cutMods at h
  split at h
  · simp at h
  · split at h
    · simp at h
    · simp only [Except.ok.injEq] at h
      subst h
      intro m hm
      obtain ⟨n, _, rfl⟩ := List.mem_map.mp hm
      exact ⟨n, rfl⟩

/-- the modifiers the CLI puts before / behind the adapter stage never reverse-complement and are fine for every action -/
theorem makeModsSingle_shape (o : Opts) (ads : List Matchable) (mods : List SMod) (h : makeModsSingle o ads = .ok mods) :
    ∃ pre post, (∀ m ∈ pre ++ post, m.isRevcomp = false ∧ ∀ s, m.OK s) ∧
      zeroCapBases (pre ++ post) = (if o.zeroCap then [o.qualityBase.toNat] else []) ∧
      (mods = pre ++ post ∨
       mods = pre ++ SMod.revcomp ⟨ads, o.times, o.action⟩ (!o.renameGiven) pre.isEmpty :: post ∨
       mods = pre ++ SMod.adapters ⟨ads, o.times, o.action⟩ pre.isEmpty :: post) := by
  obtain ⟨cuts, hc, rfl⟩ := makeModsSingle_ok o ads mods h
  have hcuts := cutMods_cuts _ _ hc
  refine ⟨cuts ++ (match o.nextseqTrim with | some c => [SMod.nextseq c o.qualityBase] | none => []) ++
            (qtrimOf o.qualityCutoff o.qualityBase).toList,
    (if o.polyA then [SMod.polyA false] else []) ++
          (match o.length with | some l => [SMod.shorten l] | none => []) ++ bothEndMods o ++
          (match o.rename with | some t => [SMod.rename t] | none => []), ?_, ?_, ?_⟩
  · intro m hm
    simp only [List.mem_append] at hm
    have hq : ∀ m ∈ (qtrimOf o.qualityCutoff o.qualityBase).toList, ∃ a b c, m = SMod.qtrim a b c := by
      intro m hm
      unfold qtrimOf at hm
      split at hm
      · simp at hm; exact ⟨_, _, _, hm⟩
      · simp at hm
    have hb : ∀ m ∈ bothEndMods o, m.isRevcomp = false ∧ ∀ s, m.OK s := by
      intro m hm
      unfold bothEndMods at hm
      simp only [List.mem_append, List.mem_map] at hm
      rcases hm with (((hm | hm) | ⟨x, _, rfl⟩) | hm) | hm
      · split at hm <;> simp at hm; subst hm; exact ⟨rfl, fun _ => trivial⟩
      · split at hm <;> simp at hm; subst hm; exact ⟨rfl, fun _ => trivial⟩
      · exact ⟨rfl, fun _ => trivial⟩
      · split at hm <;> simp at hm; subst hm; exact ⟨rfl, fun _ => trivial⟩
      · split at hm <;> simp at hm; subst hm; exact ⟨rfl, fun _ => trivial⟩
    rcases hm with ((hm | hm) | hm) | (((hm | hm) | hm) | hm)
    · obtain ⟨n, rfl⟩ := hcuts m hm; exact ⟨rfl, fun _ => trivial⟩
    · split at hm <;> simp at hm; subst hm; exact ⟨rfl, fun _ => trivial⟩
    · obtain ⟨a, b, c, rfl⟩ := hq m hm; exact ⟨rfl, fun _ => trivial⟩
    · split at hm <;> simp at hm; subst hm; exact ⟨rfl, fun _ => trivial⟩
    · split at hm <;> simp at hm; subst hm; exact ⟨rfl, fun _ => trivial⟩
    · exact hb m hm
    · split at hm <;> simp at hm; subst hm; exact ⟨rfl, fun _ => trivial⟩
  · have hcz : cuts.flatMap SMod.capBases = [] := by
      rw [List.flatMap_eq_nil_iff]
      intro m hm; obtain ⟨n, rfl⟩ := hcuts m hm; rfl
    have hqz : (qtrimOf o.qualityCutoff o.qualityBase).toList.flatMap SMod.capBases = [] := by
      unfold qtrimOf; split <;> simp [SMod.capBases]
    simp only [zeroCapBases, List.flatMap_append, hcz, hqz, bothEndMods]
    have e1 : (match o.nextseqTrim with | some c => [SMod.nextseq c o.qualityBase] | none => []).flatMap SMod.capBases = [] := by
      split <;> simp [SMod.capBases]
    have e2 : (if o.polyA then [SMod.polyA false] else []).flatMap SMod.capBases = [] := by
      split <;> simp [SMod.capBases]
    have e3 : (match o.length with | some l => [SMod.shorten l] | none => []).flatMap SMod.capBases = [] := by
      split <;> simp [SMod.capBases]
    have e4 : (match o.rename with | some t => [SMod.rename t] | none => []).flatMap SMod.capBases = [] := by
      split <;> simp [SMod.capBases]
    have e5 : (if o.trimN then [SMod.trimN] else []).flatMap SMod.capBases = [] := by
      split <;> simp [SMod.capBases]
    have e7 : (o.stripSuffix.map SMod.stripSuffix).flatMap SMod.capBases = [] := by
      rw [List.flatMap_eq_nil_iff]; intro m hm; obtain ⟨x, _, rfl⟩ := List.mem_map.mp hm; rfl
    have e8 : (if (!o.pfx.isEmpty || !o.sfx.isEmpty) = true then [SMod.prefixSuffix o.pfx o.sfx] else []).flatMap SMod.capBases = [] := by
      split <;> simp [SMod.capBases]
    rw [e1, e2, e3, e4, e5, e7, e8]
    cases o.lengthTag <;> cases o.zeroCap <;> simp [SMod.capBases]
  · by_cases he : ads.isEmpty = true
    · left; simp [he]
    · by_cases hr : o.revcomp = true
      · right; left; simp [he, hr]
      · right; right; simp [he, hr]

theorem revcompStages_zero (l : List SMod) (h : ∀ m ∈ l, m.isRevcomp = false) : revcompStages l = 0 := by
  unfold revcompStages
  rw [List.length_eq_zero_iff, List.filter_eq_nil_iff]
  intro m hm; simp [h m hm]

/-- **The modifier lists the CLI builds satisfy the hypotheses of the pipeline theorems**: at most one
    reverse-complementing stage, a single zero-capper (iff `-z`), and every modifier is covered as soon as the one cutter
    built from `--action`, `--times` and the adapters is -/
theorem makeModsSingle_hyps (o : Opts) (ads : List Matchable) (mods : List SMod) (h : makeModsSingle o ads = .ok mods) :
    revcompStages mods ≤ 1 ∧ zeroCapBases mods = (if o.zeroCap then [o.qualityBase.toNat] else []) ∧
    ∀ s, CutterOK s ⟨ads, o.times, o.action⟩ → ∀ m ∈ mods, m.OK s := by
  obtain ⟨pre, post, hall, hz, hform⟩ := makeModsSingle_shape o ads mods h
  have hpre : ∀ m ∈ pre, m.isRevcomp = false := fun m hm => (hall m (List.mem_append_left _ hm)).1
  have hpost : ∀ m ∈ post, m.isRevcomp = false := fun m hm => (hall m (List.mem_append_right _ hm)).1
  have hz' : ∀ x : SMod, x.capBases = [] → zeroCapBases (pre ++ x :: post) = zeroCapBases (pre ++ post) := by
    intro x hx; simp [zeroCapBases, List.flatMap_append, hx]
  have hcount : ∀ x : SMod, revcompStages (pre ++ x :: post) ≤ 1 := by
    intro x
    have a := revcompStages_zero pre hpre
    have b := revcompStages_zero post hpost
    unfold revcompStages at a b ⊢
    rw [List.filter_append, List.length_append, a, List.filter_cons]
    split <;> simp [b]
  have hok : ∀ s (x : SMod), x.OK s → ∀ m ∈ pre ++ x :: post, m.OK s := by
    intro s x hx m hm
    simp only [List.mem_append, List.mem_cons] at hm
    rcases hm with hm | rfl | hm
    · exact (hall m (List.mem_append_left _ hm)).2 s
    · exact hx
    · exact (hall m (List.mem_append_right _ hm)).2 s
  rcases hform with rfl | rfl | rfl
  · exact ⟨by rw [revcompStages_zero _ (fun m hm => (hall m hm).1)]; omega, hz, fun s _ m hm => (hall m hm).2 s⟩
  · exact ⟨hcount _, by rw [hz' _ rfl, hz], fun s hc => hok s _ hc⟩
  · exact ⟨hcount _, by rw [hz' _ rfl, hz], fun s hc => hok s _ hc⟩

end Cutadapt
