import Cutadapt.Proofs.DpExactLoop
/-! Exactness of the banded DP, part 4: the reported cost is at most `D` (hence minimal). -/
namespace Cutadapt.Align.Exact
open Cutadapt Cutadapt.Align Cutadapt.Spec Cutadapt.Generated Cutadapt.Align.Sound

/-! ### last-column search in closed form -/

/-- does the last-column candidate `e` in row `i` replace `best`? -/
def colUpd (cfg : Cfg) (ref : Bytes) (m : Nat) (so : Int) (i : Nat) (best : Best) (e : Entry) : Bool :=
  accB cfg ref m i e && (!best.found
    || (decide (so ≤ best.origin + ((m / 2 : Nat) : Int)) && decide (e.score > best.score))
    || (decide (((toNatI ((i : Int) + min e.origin 0) : Nat) : Int) > (best.refStop : Int) + min best.origin 0)
        && decide (e.score > best.score)))

def lcsStep (cfg : Cfg) (ref : Bytes) (m n : Nat) (col : List Entry) (so : Int) (i : Nat) (best : Best) : Best :=
  if colUpd cfg ref m so i best (col.getD i default) then
    ⟨(col.getD i default).origin, (col.getD i default).cost, (col.getD i default).score, i, n, true⟩
  else best

theorem go_zero (cfg : Cfg) (ref : Bytes) (m n : Nat) (col : List Entry) (so : Int) (firstI i : Nat) (best : Best) :
    lastColumnSearch.go cfg ref m n col so firstI 0 i best = best := by
  unfold lastColumnSearch.go; rfl

theorem go_succ (cfg : Cfg) (ref : Bytes) (m n : Nat) (col : List Entry) (so : Int) (firstI fuel i : Nat)
    (best : Best) :
    lastColumnSearch.go cfg ref m n col so firstI (fuel+1) i best =
      if i < firstI then best
      else if i == 0 then lcsStep cfg ref m n col so i best
      else lastColumnSearch.go cfg ref m n col so firstI fuel (i-1) (lcsStep cfg ref m n col so i best) := by
  rw [lastColumnSearch.go]
  rfl

/-- induction principle for the last-column search -/
theorem go_ind (cfg : Cfg) (ref : Bytes) (m n : Nat) (col : List Entry) (so : Int) (firstI i0 : Nat)
    (P : Best → Prop)
    (hnew : ∀ i, firstI ≤ i → i ≤ i0 → accB cfg ref m i (col.getD i default) = true →
      P ⟨(col.getD i default).origin, (col.getD i default).cost, (col.getD i default).score, i, n, true⟩) :
    ∀ (fuel i : Nat) (best : Best), i ≤ i0 → P best → P (lastColumnSearch.go cfg ref m n col so firstI fuel i best)
  | 0, i, best, _, hb => by rw [go_zero]; exact hb
  | fuel+1, i, best, hi, hb => by
    rw [go_succ]
    have hstep : P (lcsStep cfg ref m n col so i best) ∨ i < firstI := by
      by_cases hlt : i < firstI
      · exact .inr hlt
      · left
        unfold lcsStep
        split
        · next hc =>
          unfold colUpd at hc
          simp only [Bool.and_eq_true] at hc
          exact hnew i (by omega) hi hc.1
        · exact hb
    split
    · exact hb
    · next hlt =>
      have hstep := hstep.resolve_right hlt
      split
      · exact hstep
      · exact go_ind cfg ref m n col so firstI i0 P hnew fuel (i-1) _ (by omega) hstep


/-! ### the recorded best match is at most `D` -/

def BestU (ctx : Ctx) (j0 : Nat) (b : Best) : Prop :=
  b.found = true → j0 ≤ b.queryStop ∧
    (D ctx j0 b.refStop (b.queryStop - j0) ≤ ctx.cfg.k → b.cost ≤ D ctx j0 b.refStop (b.queryStop - j0))

structure InvU (cfg : Cfg) (ref query : Bytes) (j : Nat) (s : LoopState) : Prop where
  ge : minNOf cfg ref.length query.length ≤ j
  u : s.done = false →
    UInv (mkCtx cfg ref query) (minNOf cfg ref.length query.length) (j - minNOf cfg ref.length query.length) s.last s.col
  bestU : BestU (mkCtx cfg ref query) (minNOf cfg ref.length query.length) s.best

theorem shrink_edge {ctx : Ctx} {j last : Nat} {col : List Entry} (h : ColInv ctx j last col) :
    ∀ i, shrinkLast ctx.cfg.k col last ≤ i → i < ctx.ref.length → ctx.cfg.k < (col.getD i default).cost := by
  intro i h1 h2
  by_cases hil : i ≤ last
  · exact shrinkLast_spec _ col last i h1 hil
  · exact (h.cells i (by omega)).2.2 (by omega)

theorem columnLoop_U {cfg : Cfg} {ref query : Bytes} (hwf : cfg.WF ref.length) {j : Nat}
    (hj : j < query.length) {s : LoopState} (h : Inv cfg ref query j s) (hu : InvU cfg ref query j s) :
    InvU cfg ref query (j+1) (columnLoop cfg (compareAscii cfg) (encodeRef cfg ref) ref ref.length s
      (j+1, (encodeQuery cfg query)[j]'(by rw [encodeQuery_length]; exact hj))) := by
  by_cases hd : s.done = true
  · unfold columnLoop
    simp only [hd, if_true]
    exact ⟨by have := hu.ge; omega, fun h' => (by rw [hd] at h'; cases h'), hu.bestU⟩
  · have hd' : s.done = false := by simpa using hd
    have hge := hu.ge
    have hcol := h.col hd'
    have hmlen : (mkCtx cfg ref query).ref.length = ref.length := encodeRef_length cfg ref
    have hj' : j < (mkCtx cfg ref query).query.length := by
      show j < (encodeQuery cfg query).length
      rw [encodeQuery_length]; exact hj
    have hstep : ColInv (mkCtx cfg ref query) (j+1) s.last (stepColumn cfg (compareAscii cfg) (encodeRef cfg ref)
        (encodeQuery cfg query)[j] s.last s.col) := stepColumn_inv hwf.indel_pos hj' hcol
    have hU : ∀ i, i ≤ ref.length → UCell (mkCtx cfg ref query) (minNOf cfg ref.length query.length) i
        (j + 1 - minNOf cfg ref.length query.length)
        ((stepColumn cfg (compareAscii cfg) (encodeRef cfg ref) (encodeQuery cfg query)[j] s.last s.col).getD i default) := by
      intro i hi
      have e : j + 1 - minNOf cfg ref.length query.length = j - minNOf cfg ref.length query.length + 1 := by omega
      rw [e]
      exact stepColumn_U (ctx := mkCtx cfg ref query) (by omega) hj' hcol (hu.u hd') i (by rw [hmlen]; exact hi)
    have hedge := shrink_edge hstep
    rw [columnLoop_eq _ _ _ _ _ _ _ _ hd']
    generalize stepColumn cfg (compareAscii cfg) (encodeRef cfg ref) (encodeQuery cfg query)[j] s.last s.col = col'
      at hstep hU hedge ⊢
    have hUm : UInv (mkCtx cfg ref query) (minNOf cfg ref.length query.length)
        (j + 1 - minNOf cfg ref.length query.length) ref.length col' :=
      ⟨fun i hi => hU i (by rw [← hmlen]; exact hi), fun i h1 h2 => by rw [hmlen] at h2; omega⟩
    split
    · exact ⟨by omega, fun _ => ⟨fun i hi => hU i (by rw [← hmlen]; exact hi), hedge⟩, hu.bestU⟩
    · split
      · split
        · refine ⟨by omega, fun _ => hUm, fun _ => ⟨by simp only; omega, ?_⟩⟩
          exact hU ref.length (Nat.le_refl _)
        · exact ⟨by omega, fun _ => hUm, hu.bestU⟩
      · exact ⟨by omega, fun _ => hUm, hu.bestU⟩

theorem initState_U {cfg : Cfg} {ref query : Bytes} (hwf : cfg.WF ref.length)
    (hcase : minNOf cfg ref.length query.length = 0 ∨ cfg.startInQuery = true) :
    InvU cfg ref query (minNOf cfg ref.length query.length) (initState cfg ref.length query.length) := by
  refine ⟨Nat.le_refl _, fun _ => ?_, fun h => by cases h⟩
  rw [Nat.sub_self]
  have hmlen : (mkCtx cfg ref query).ref.length = ref.length := encodeRef_length cfg ref
  have := init_U (ctx := mkCtx cfg ref query) (j0 := minNOf cfg ref.length query.length) hwf.indel_pos hcase
  rw [hmlen] at this
  exact this


theorem finalBest_U {cfg : Cfg} {ref query : Bytes} (hwf : cfg.WF ref.length)
    (hcase : minNOf cfg ref.length query.length = 0 ∨ cfg.startInQuery = true) :
    BestU (mkCtx cfg ref query) (minNOf cfg ref.length query.length) (finalBest cfg ref query) := by
  rw [finalBest_eq]
  obtain ⟨hP, hinit⟩ := finalState_ind cfg ref query (fun j s => Inv cfg ref query j s ∧ InvU cfg ref query j s)
    ⟨initState_inv hwf, initState_U hwf hcase⟩
    (fun _ _ hj _ _ hP => ⟨columnLoop_inv hwf hj hP.1, columnLoop_U hwf hj hP.1 hP.2⟩)
  have hmin := minNOf_le cfg ref.length query.length
  split
  · next hmn =>
    have hmn' : maxNOf cfg ref.length query.length = query.length := by simpa using hmn
    obtain ⟨hinv, hu⟩ := hP (by omega)
    rw [hmn'] at hinv hu
    unfold lastColumnSearch
    by_cases hd : (finalState cfg ref query).done = true
    · obtain ⟨hfound, hsc⟩ := hinv.doneBest hd
      rw [go_done _ _ _ _ _ _ _ (fun i hi => (hinv.score i hi).1) _ _ _ hinv.filled_le hfound hsc]
      exact hu.bestU
    · have hd' : (finalState cfg ref query).done = false := by simpa using hd
      have hmlen : (mkCtx cfg ref query).ref.length = ref.length := encodeRef_length cfg ref
      refine go_ind _ _ _ _ _ _ _ (finalState cfg ref query).lastFilled _ ?_ _ _ _ (Nat.le_refl _) hu.bestU
      intro i _ hi _ _
      exact ⟨hmin, (hu.u hd').u i (by rw [hmlen]; have := hinv.filled_le; omega)⟩
  · by_cases hle : minNOf cfg ref.length query.length ≤ maxNOf cfg ref.length query.length
    · exact (hP hle).2.bestU
    · rw [hinit (by omega)]
      intro hf; cases hf

/-- a script produces at most as many query characters as reference characters plus its cost -/
theorem rhs_length_le (eq : Sym → Sym → Bool) (c : Nat) (hc : 1 ≤ c) : ∀ (s : List Op),
    (rhs s).length ≤ (lhs s).length + cost eq c s
  | [] => by simp
  | .sub _ _ :: s => by
    have := rhs_length_le eq c hc s
    simp only [rhs_cons, lhs_cons, cost_cons, Op.rhs, Op.lhs, Op.cost, List.length_append, List.length_cons,
      List.length_nil]
    omega
  | .del _ :: s => by
    have := rhs_length_le eq c hc s
    simp only [rhs_cons, lhs_cons, cost_cons, Op.rhs, Op.lhs, Op.cost, List.length_append, List.length_cons,
      List.length_nil]
    omega
  | .ins _ :: s => by
    have := rhs_length_le eq c hc s
    simp only [rhs_cons, lhs_cons, cost_cons, Op.rhs, Op.lhs, Op.cost, List.length_append, List.length_cons,
      List.length_nil]
    omega

theorem sound_cost_le_k {cfg : Cfg} {ref query : Bytes} (hwf : cfg.WF ref.length) {as ae rs re e : Nat}
    (hs : SoundResult cfg ref query as ae rs re e) : e ≤ cfg.k := by
  rw [hwf.k_eq]
  have := hs.h_as; have := hs.h_ae
  exact Nat.le_trans hs.tolerance (hwf.thr_mono _ _ (effLen_le _ _ _ _ _ _ (by omega)))

/-- an alignment of cost ≤ k between admissibly placed intervals starts at or after the first processed column -/
theorem start_ge_minN {cfg : Cfg} {ref query : Bytes} (hwf : cfg.WF ref.length) {as ae rs re : Nat}
    (hae : ae ≤ ref.length) (hrs : rs ≤ re)
    (hstop : cfg.stopInQuery = false → re = query.length)
    {s : List Op} (hl : lhs s = seg (encodeRef cfg ref) as ae) (hr : rhs s = seg (encodeQuery cfg query) rs re)
    (hc : cost cfg.eq cfg.indelCost s ≤ cfg.k) : minNOf cfg ref.length query.length ≤ rs := by
  unfold minNOf
  by_cases hsq : cfg.stopInQuery = true
  · simp [hsq]
  · have hsq' : cfg.stopInQuery = false := by simpa using hsq
    have hre' := hstop hsq'
    have hlen := rhs_length_le cfg.eq cfg.indelCost hwf.indel_pos s
    rw [hl, hr, seg_length, seg_length, encodeRef_length, encodeQuery_length] at hlen
    simp only [hsq', Bool.not_false, if_true]
    omega

/-- **minimality**: no alignment of the two reported intervals is cheaper than the reported number of errors -/
theorem locate_minimal (cfg : Cfg) (ref query : Bytes) (hwf : cfg.WF ref.length)
    {as ae rs re : Nat} {score : Int} {e : Nat}
    (h : locate cfg ref query = some (as, ae, rs, re, score, e)) :
    ∀ s, lhs s = seg (encodeRef cfg ref) as ae → rhs s = seg (encodeQuery cfg query) rs re →
      e ≤ cost cfg.eq cfg.indelCost s := by
  intro s hl hr
  apply Nat.le_of_not_lt; intro hlt
  have hs := locate_sound cfg ref query hwf h
  have hk := sound_cost_le_k hwf hs
  obtain ⟨s0, hl0, hr0, hc0⟩ := hs.script
  have hmin0 := start_ge_minN hwf hs.h_ae hs.h_rs hs.stopQuery hl0 hr0 (by omega)
  have hcase : minNOf cfg ref.length query.length = 0 ∨ cfg.startInQuery = true := by
    by_cases hq : cfg.startInQuery = true
    · exact .inr hq
    · left; have := hs.startQuery (by simpa using hq); omega
  have hU := finalBest_U (query := query) hwf hcase
  rw [locate_eq] at h
  generalize finalBest cfg ref query = best at h hU
  split at h
  · cases h
  · next hf =>
    have hf' : best.found = true := by simpa using hf
    simp only [Option.some.injEq, Prod.mk.injEq] at h
    obtain ⟨h1, h2, h3, h4, _, h6⟩ := h
    obtain ⟨_, hU2⟩ := hU hf'
    rw [h2, h4, h6] at hU2
    have hstart : RStart (mkCtx cfg ref query) (minNOf cfg ref.length query.length) as rs := by
      refine ⟨?_, ?_, hs.startOne, hmin0⟩
      · cases hsr : cfg.startInRef
        · exact .inl (hs.startRef hsr)
        · exact .inr hsr
      · cases hsq : cfg.startInQuery
        · exact .inl (hs.startQuery hsq)
        · exact .inr hsq
    have hD := D_le_cost (ctx := mkCtx cfg ref query) hstart hs.h_as
      (by show ae ≤ (encodeRef cfg ref).length; rw [encodeRef_length]; exact hs.h_ae) hs.h_rs
      (by show re ≤ (encodeQuery cfg query).length; rw [encodeQuery_length]; exact hs.h_re) hl hr
    have hD' : D (mkCtx cfg ref query) (minNOf cfg ref.length query.length) ae
        (re - minNOf cfg ref.length query.length) ≤ cost cfg.eq cfg.indelCost s := hD
    have := hU2 (by show _ ≤ cfg.k; omega)
    omega

end Cutadapt.Align.Exact
