import Cutadapt.Proofs.IndexLookup
import Cutadapt.Proofs.IndexFold
/-! Coordinates of a match returned through the index lie inside the read — for every read, reads with `N` included,
    relative to the C01 fact that a re-alignment lies inside the string it was given. -/
namespace Cutadapt.Index
open Cutadapt Cutadapt.Adapters

/-- the C01 fact used for reads with `N` (`C01.matchTo_sound … .bounds`): a re-alignment lies inside its string -/
def RealignInside (adapters : List Adapter) : Prop :=
  ∀ a ∈ adapters, ∀ (affix : Bytes) (mt : SingleMatch), matchTo a affix = some mt →
    mt.rstart ≤ mt.rstop ∧ mt.rstop ≤ affix.length

theorem makeAffix_length_le_self (p : Bool) (s : Bytes) (l : Nat) : (makeAffix p s l).length ≤ s.length := by
  cases p with
  | true => rw [makeAffix_prefix]; simp; omega
  | false =>
    rw [makeAffix_suffix]
    split
    · exact Nat.le_refl _
    · simp

/-- `match_length` never exceeds the affix, unless it is the looked-up length itself -/
theorem lookupAffix_matchLength {D : Type} (ops : DictOps D) (idx : AdapterIndex D)
    (hvalid : ∀ s ai e m, ops.get? idx.index s = some (ai, e, m) → ∃ a ∈ idx.adapters, idx.adapters.getD ai default = a)
    (hre : RealignInside idx.adapters) (affix : Bytes) (length : Nat) (r : Nat × Nat × Int × Nat)
    (h : lookupAffix ops idx affix length = some r) :
    r.2.2.2 ≤ affix.length ∨ (r.2.2.2 = length ∧ ∃ m : Nat, ops.get? idx.index affix = some (r.1, r.2.1, m)) := by
  simp only [lookupAffix] at h
  split at h
  · left
    simp only [lookupWithN] at h
    split at h
    · simp at h
    · rename_i ai e0 m0 hg
      split at h
      · simp at h
      · rename_i mt hmt
        simp only [Option.some.injEq] at h
        subst h
        obtain ⟨a, ha, hgd⟩ := hvalid _ _ _ _ hg
        rw [hgd] at hmt
        have := hre a ha affix mt hmt
        simp only
        omega
  · right
    split at h
    · simp at h
    · rename_i ai e m hg
      simp only [Option.some.injEq] at h
      subst h
      exact ⟨rfl, m, hg⟩

theorem multiLoop_length_le {D : Type} (ops : DictOps D) (idx : AdapterIndex D)
    (hvalid : ∀ s ai e m, ops.get? idx.index s = some (ai, e, m) → ∃ a ∈ idx.adapters, idx.adapters.getD ai default = a)
    (hre : RealignInside idx.adapters) (n : Nat) :
    ∀ (ls : List Nat) (affix : Bytes) (best : BestSoFar), affix.length ≤ n → best.length ≤ n →
      (multiLoop ops idx n ls affix best).length ≤ n := by
  intro ls
  induction ls with
  | nil => intro affix best _ hb; simpa [multiLoop] using hb
  | cons length rest ih =>
    intro affix best ha hb
    simp only [multiLoop]
    split
    · exact hb
    · split
      · exact ih affix best ha hb
      · rename_i hgt
        have ha' : (makeAffix idx.isPrefix affix length).length ≤ n :=
          Nat.le_trans (makeAffix_length_le_self _ _ _) ha
        split
        · exact ih _ best ha' hb
        · rename_i ai e m ml hlk
          split
          · apply ih _ _ ha'
            rcases lookupAffix_matchLength ops idx hvalid hre _ _ (ai, e, m, ml) hlk with h' | ⟨h', _⟩
            · simp only at h' ⊢; omega
            · simp only at h' ⊢; omega
          · exact ih _ best ha' hb

/-- **Coordinates inside the read, for every read** (with or without `N`, of any length). -/
theorem indexMatchTo_coords {D : Type} (ops : DictOps D) (idx : AdapterIndex D) (read : Bytes)
    (hvalid : ∀ s ai e m, ops.get? idx.index s = some (ai, e, m) → ∃ a ∈ idx.adapters, idx.adapters.getD ai default = a)
    (hkeys : ∀ s en, ops.get? idx.index s = some en → s.length ∈ idx.lengths)
    (hre : RealignInside idx.adapters)
    (mt : IndexMatch) (h : indexMatchTo ops idx read = some mt) :
    0 ≤ mt.rstart ∧ mt.rstart ≤ mt.rstop ∧ mt.rstop ≤ read.length ∧
    (if idx.isPrefix then mt.rstart = 0 else mt.rstop = read.length) := by
  have hupl : (read.map asciiUpper).length = read.length := by simp
  -- in both branches the match is `makeMatch idx _ len _ _ read` with `len ≤ n`
  have key : ∃ ai len sc e, len ≤ read.length ∧ mt = makeMatch idx ai len sc e read := by
    simp only [indexMatchTo] at h
    split at h
    · rename_i h1
      simp only [matchToOneLength] at h
      obtain ⟨l0, hl0⟩ : ∃ l0, idx.lengths = [l0] := by
        match hls : idx.lengths, h1 with
        | [l0], _ => exact ⟨l0, rfl⟩
      simp only [hl0, List.headD_cons] at h
      split at h
      · simp at h
      · rename_i ai e m ml hlk
        simp only [Option.some.injEq] at h
        have hal := makeAffix_length_le_self idx.isPrefix (read.map asciiUpper) l0
        refine ⟨ai, ml, m, e, ?_, h.symm⟩
        rcases lookupAffix_matchLength ops idx hvalid hre _ _ (ai, e, m, ml) hlk with h' | ⟨h', m', hg⟩
        · simp only at h'; omega
        · simp only at h' hg
          have := hkeys _ _ hg
          rw [hl0, List.mem_singleton] at this
          omega
    · simp only [matchToMultipleLengths] at h
      split at h
      · simp at h
      · simp only [Option.some.injEq] at h
        refine ⟨_, _, _, _, ?_, h.symm⟩
        exact multiLoop_length_le ops idx hvalid hre read.length idx.lengths _ {} (by omega) (Nat.zero_le _)
  obtain ⟨ai, len, sc, e, hlen, rfl⟩ := key
  cases hp : idx.isPrefix
  · simp only [makeMatch, hp, Bool.false_eq_true, if_false]
    refine ⟨by omega, by omega, Nat.le_refl _, trivial⟩
  · simp only [makeMatch, hp, if_true]
    exact ⟨by omega, by omega, hlen, trivial⟩

end Cutadapt.Index
