import Cutadapt.Proofs.StepsCore
/-! Running a prefix of a step list: `runStepsS/P (pre ++ rest)` first runs `pre`; the read is consumed there, or `rest`
    continues with what `pre` handed on. -/
namespace Cutadapt.Steps
open Cutadapt

/-- `R` relates the two lists element by element (core has no `List.Forall₂`) -/
inductive Forall2 (R : α → β → Prop) : List α → List β → Prop
  | nil : Forall2 R [] []
  | cons {a b l1 l2} : R a b → Forall2 R l1 l2 → Forall2 R (a :: l1) (b :: l2)

/-- run the steps `pre` (numbered from `idx`) on a read: the read handed on (`none` = consumed) and the events -/
def runPrefixS (ads : List Matchable) : List Step → Nat → Read → Info → Except Err (Option Read × List Event)
  | [], _, r, _ => .ok (some r, [])
  | s :: ss, idx, r, i =>
    match stepS ads idx s r i with
    | .error e => .error e
    | .ok (none, e) => .ok (none, e)
    | .ok (some r', e) =>
      match runPrefixS ads ss (idx + 1) r' i with
      | .error e' => .error e'
      | .ok (o, e2) => .ok (o, e ++ e2)

theorem runStepsS_append (ads : List Matchable) (pre rest : List Step) (idx : Nat) (r : Read) (i : Info)
    (evs0 : List Event) :
    runStepsS ads (pre ++ rest) idx r i evs0 =
      match runPrefixS ads pre idx r i with
      | .error e => .error e
      | .ok (none, e) => .ok (evs0 ++ e)
      | .ok (some r', e) => runStepsS ads rest (idx + pre.length) r' i (evs0 ++ e) := by
  induction pre generalizing idx r evs0 with
  | nil => simp [runPrefixS]
  | cons s ss ih =>
    simp only [List.cons_append, runStepsS, runPrefixS]
    cases hs : stepS ads idx s r i with
    | error e => rfl
    | ok v =>
      obtain ⟨o, e⟩ := v
      cases o with
      | none => rfl
      | some r' =>
        simp only
        rw [ih]
        cases hp : runPrefixS ads ss (idx + 1) r' i with
        | error e' => rfl
        | ok v2 =>
          obtain ⟨o2, e2⟩ := v2
          cases o2 with
          | none => simp
          | some r2 => simp [Nat.add_assoc, Nat.add_comm 1]

def runPrefixP (a1 a2 : List Matchable) : List Step → Nat → Read × Read → Info × Info →
    Except Err (Option (Read × Read) × List Event)
  | [], _, r, _ => .ok (some r, [])
  | s :: ss, idx, r, i =>
    match stepP a1 a2 idx s r i with
    | .error e => .error e
    | .ok (none, e) => .ok (none, e)
    | .ok (some r', e) =>
      match runPrefixP a1 a2 ss (idx + 1) r' i with
      | .error e' => .error e'
      | .ok (o, e2) => .ok (o, e ++ e2)

theorem runStepsP_append (a1 a2 : List Matchable) (pre rest : List Step) (idx : Nat) (r : Read × Read) (i : Info × Info)
    (evs0 : List Event) :
    runStepsP a1 a2 (pre ++ rest) idx r i evs0 =
      match runPrefixP a1 a2 pre idx r i with
      | .error e => .error e
      | .ok (none, e) => .ok (evs0 ++ e)
      | .ok (some r', e) => runStepsP a1 a2 rest (idx + pre.length) r' i (evs0 ++ e) := by
  induction pre generalizing idx r evs0 with
  | nil => simp [runPrefixP]
  | cons s ss ih =>
    simp only [List.cons_append, runStepsP, runPrefixP]
    cases hs : stepP a1 a2 idx s r i with
    | error e => rfl
    | ok v =>
      obtain ⟨o, e⟩ := v
      cases o with
      | none => rfl
      | some r' =>
        simp only
        rw [ih]
        cases hp : runPrefixP a1 a2 ss (idx + 1) r' i with
        | error e' => rfl
        | ok v2 =>
          obtain ⟨o2, e2⟩ := v2
          cases o2 with
          | none => simp
          | some r2 => simp [Nat.add_assoc, Nat.add_comm 1]

/-- a prefix of pass-through steps hands the read on unchanged, or consumes it with a `filtered` event and at most the
    redirect write -/
theorem runPrefixS_pass {ads : List Matchable} {pre : List Step} {idx : Nat} {r : Read} {i : Info} {o e}
    (hp : ∀ s ∈ pre, s.isPass = true) (h : runPrefixS ads pre idx r i = .ok (o, e)) :
    (o = some r ∧ ∀ ev ∈ e, isText ev = true) ∨
    (o = none ∧ ∃ texts k w, e = texts ++ .filtered (idx + k) :: redir w r none ∧ (∀ ev ∈ texts, isText ev = true) ∧
      ∃ p1 p2 mode, pre[k]? = some (.filter p1 p2 mode w)) := by
  induction pre generalizing idx e with
  | nil =>
    simp only [runPrefixS, Except.ok.injEq, Prod.mk.injEq] at h
    obtain ⟨rfl, rfl⟩ := h
    exact .inl ⟨rfl, by simp⟩
  | cons s ss ih =>
    simp only [runPrefixS] at h
    have hs0 := hp s (by simp)
    split at h
    · simp at h
    · rename_i e' hs
      simp only [Except.ok.injEq, Prod.mk.injEq] at h
      obtain ⟨rfl, rfl⟩ := h
      rcases stepS_pass hs0 hs with ⟨h1, -⟩ | ⟨-, p, p2, mode, w, rfl, -, rfl⟩
      · simp at h1
      · exact .inr ⟨rfl, [], 0, w, by simp, by simp, _, _, _, rfl⟩
    · rename_i r' e' hs
      rcases stepS_pass hs0 hs with ⟨h1, ht⟩ | ⟨h1, -⟩
      · simp only [Option.some.injEq] at h1
        subst h1
        split at h
        · simp at h
        · rename_i o2 e2 h2
          simp only [Except.ok.injEq, Prod.mk.injEq] at h
          obtain ⟨rfl, rfl⟩ := h
          rcases ih (fun s hs => hp s (by simp [hs])) h2 with ⟨rfl, ht2⟩ | ⟨rfl, texts, k, w, rfl, htx, hk⟩
          · left
            refine ⟨rfl, fun ev hev => ?_⟩
            rcases List.mem_append.1 hev with hev | hev
            · exact ht ev hev
            · exact ht2 ev hev
          · right
            refine ⟨rfl, e' ++ texts, k + 1, w, by simp [Nat.add_assoc, Nat.add_comm 1], ?_, by simpa using hk⟩
            intro ev hev
            rcases List.mem_append.1 hev with hev | hev
            · exact ht ev hev
            · exact htx ev hev
      · simp at h1
end Cutadapt.Steps
