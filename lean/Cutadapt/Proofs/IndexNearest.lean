import Cutadapt.Proofs.IndexSphere
import Cutadapt.Proofs.IndexEnv
import Cutadapt.Proofs.IndexFold
import Cutadapt.Proofs.IndexLookup
import Cutadapt.Proofs.IndexLengths
/-! Equally long adapters without indels: the index reports the admissible adapter that is strictly nearest to the
    read's affix (ties between worse candidates do not matter any more: the mark is cleared by a better offer). -/
namespace Cutadapt.Index
open Cutadapt Cutadapt.Adapters

/-! ### one adapter offers a string at most once -/

theorem items_noindel_mem (a : Adapter) (hi : a.indels = false) (s : Bytes) (e m : Nat) :
    (s, e, m) ∈ adapterItems a ↔ e ≤ adapterK a ∧ s ∈ hammingSphere a.seq e ∧ m = a.seq.length - e := by
  unfold adapterItems
  simp only [hi, Bool.false_eq_true, if_false, List.mem_flatMap, List.mem_range, List.mem_map, Prod.mk.injEq]
  constructor
  · rintro ⟨e', he', s', hs', rfl, rfl, rfl⟩
    exact ⟨by omega, hs', rfl⟩
  · rintro ⟨he, hs, rfl⟩
    exact ⟨e, by omega, s, hs, rfl, rfl, rfl⟩

theorem items_keys_pairwise (a : Adapter) (ha : ∀ c ∈ a.seq, c ∈ acgt) :
    (adapterItems a).Pairwise (fun x y => x.1 ≠ y.1) := by
  unfold adapterItems
  cases hi : a.indels
  · simp only [Bool.false_eq_true, if_false]
    rw [List.pairwise_flatMap]
    constructor
    · intro e _
      rw [List.pairwise_map]
      exact hammingSphere_nodup a.seq e ha
    · refine List.Pairwise.imp ?_ List.pairwise_lt_range
      intro e1 e2 hlt x hx y hy
      simp only [List.mem_map] at hx hy
      obtain ⟨s1, hs1, rfl⟩ := hx
      obtain ⟨s2, hs2, rfl⟩ := hy
      have h1 := ((hammingSphere_spec a.seq e1 ha s1).mp hs1).2.2
      have h2 := ((hammingSphere_spec a.seq e2 ha s2).mp hs2).2.2
      intro heq
      simp only at heq
      subst heq
      omega
  · simp only [if_true]
    have := editEnvironment_nodup a.seq (adapterK a)
    unfold List.Nodup at this
    rw [List.pairwise_map] at this
    exact this

/-- no adapter (position) offers the same string twice -/
def DistinctOffer (x y : Ev) : Prop := x.key = y.key → x.ai ≠ y.ai

theorem events_pairwise_aux (l : List Adapter) (hl : ∀ a ∈ l, ∀ c ∈ a.seq, c ∈ acgt) : ∀ k : Nat,
    ((l.zipIdx k).flatMap adapterEvents).Pairwise DistinctOffer ∧
    ∀ ev ∈ (l.zipIdx k).flatMap adapterEvents, k ≤ ev.ai := by
  induction l with
  | nil => intro k; simp
  | cons a l ih =>
    intro k
    obtain ⟨ih1, ih2⟩ := ih (fun b hb => hl b (by simp [hb])) (k + 1)
    simp only [List.zipIdx_cons, List.flatMap_cons]
    have hblock : ∀ ev ∈ adapterEvents (a, k), ev.ai = k := by
      intro ev hev
      simp only [adapterEvents, List.mem_map] at hev
      obtain ⟨it, _, rfl⟩ := hev
      rfl
    constructor
    · rw [List.pairwise_append]
      refine ⟨?_, ih1, ?_⟩
      · simp only [adapterEvents]
        rw [List.pairwise_map]
        refine List.Pairwise.imp ?_ (items_keys_pairwise a (hl a (by simp)))
        intro x y hxy hkey
        exact absurd hkey hxy
      · intro x hx y hy _
        have := hblock x hx
        have := ih2 y hy
        omega
    · intro ev hev
      simp only [List.mem_append] at hev
      rcases hev with hev | hev
      · have := hblock ev hev; omega
      · have := ih2 ev hev; omega

theorem events_pairwise (adapters : List Adapter) (hl : ∀ a ∈ adapters, ∀ c ∈ a.seq, c ∈ acgt) :
    (events adapters).Pairwise DistinctOffer := (events_pairwise_aux adapters hl 0).1

theorem forKey_pairwise_ai (adapters : List Adapter) (hl : ∀ a ∈ adapters, ∀ c ∈ a.seq, c ∈ acgt) (s : Bytes) :
    (forKey s (events adapters)).Pairwise (fun x y => x.ai ≠ y.ai) := by
  have h := List.Pairwise.filter (fun ev : Ev => ev.key == s) (events_pairwise adapters hl)
  refine List.Pairwise.imp_of_mem ?_ h
  intro x y hx hy hxy
  have kx : x.key = s := by simpa using (List.mem_filter.mp hx).2
  have ky : y.key = s := by simpa using (List.mem_filter.mp hy).2
  exact hxy (kx.trans ky.symm)

/-! ### offers for a string -/

theorem mem_events (adapters : List Adapter) (ev : Ev) :
    ev ∈ events adapters ↔ ∃ a, adapters[ev.ai]? = some a ∧ (ev.key, ev.e, ev.m) ∈ adapterItems a := by
  simp only [events, List.mem_flatMap, adapterEvents, List.mem_map]
  constructor
  · rintro ⟨⟨a, i⟩, hai, it, hit, rfl⟩
    exact ⟨a, List.mk_mem_zipIdx_iff_getElem?.mp hai, hit⟩
  · rintro ⟨a, hai, hit⟩
    exact ⟨(a, ev.ai), List.mk_mem_zipIdx_iff_getElem?.mpr hai, (ev.key, ev.e, ev.m), hit, rfl⟩

theorem hamming_le_length (x y : Bytes) : Spec.hamming (· == ·) x y ≤ x.length := by
  induction x generalizing y with
  | nil => simp [Spec.hamming]
  | cons a x ih =>
    cases y with
    | nil => simp [Spec.hamming]
    | cons b y =>
      simp only [Spec.hamming, List.length_cons]
      have := ih y
      split <;> omega

theorem asciiUpper_acgt (read : Bytes) (h : ∀ c ∈ read, c ∈ acgt) : read.map asciiUpper = read := by
  induction read with
  | nil => rfl
  | cons c cs ih =>
    have hc : c ∈ acgt := h c (by simp)
    have hcs := ih (fun x hx => h x (by simp [hx]))
    simp only [List.map_cons, hcs]
    simp only [acgt, List.mem_cons, List.not_mem_nil, or_false] at hc
    rcases hc with rfl | rfl | rfl | rfl <;> rfl

/-! ### lengths of an index over equally long adapters without indels -/

theorem addEntry_lengths_false {D : Type} (ops : DictOps D) (ai : Nat) (st : Build D) (it : Bytes × Nat × Nat) :
    (addEntry ops ai false st it).lengths = st.lengths := by
  obtain ⟨s, e, m⟩ := it
  simp only [addEntry]
  split
  · split
    · rfl
    · split
      · rfl
      · split <;> rfl
  · rfl

theorem foldl_addEntry_lengths_false {D : Type} (ops : DictOps D) (ai : Nat) (items : List (Bytes × Nat × Nat)) :
    ∀ st : Build D, (items.foldl (addEntry ops ai false) st).lengths = st.lengths := by
  induction items with
  | nil => intro st; rfl
  | cons it rest ih => intro st; simp only [List.foldl_cons, ih, addEntry_lengths_false]

theorem foldl_addAdapter_lengths {D : Type} (ops : DictOps D) (L : Nat) (l : List (Adapter × Nat))
    (hl : ∀ p ∈ l, p.1.indels = false ∧ p.1.seq.length = L) : ∀ st : Build D,
    (∀ x ∈ st.lengths, x = L) → st.lengths.Nodup →
    (∀ x ∈ (l.foldl (addAdapter ops) st).lengths, x = L) ∧ (l.foldl (addAdapter ops) st).lengths.Nodup ∧
    (l ≠ [] → L ∈ (l.foldl (addAdapter ops) st).lengths) := by
  induction l with
  | nil => intro st h1 h2; exact ⟨h1, h2, fun h => absurd rfl h⟩
  | cons p rest ih =>
    intro st h1 h2
    obtain ⟨a, ai⟩ := p
    obtain ⟨hi, hlen⟩ := hl (a, ai) (by simp)
    simp only at hi hlen
    have hst : (addAdapter ops st (a, ai)).lengths = setAdd st.lengths L := by
      simp only [addAdapter, hi, Bool.false_eq_true, if_false, foldl_addEntry_lengths_false, hlen]
    have h1' : ∀ x ∈ (addAdapter ops st (a, ai)).lengths, x = L := by
      intro x hx; rw [hst, setAdd_mem] at hx
      rcases hx with rfl | hx
      · rfl
      · exact h1 x hx
    have h2' : (addAdapter ops st (a, ai)).lengths.Nodup := by rw [hst]; exact setAdd_nodup _ _ h2
    obtain ⟨r1, r2, r3⟩ := ih (fun q hq => hl q (by simp [hq])) _ h1' h2'
    simp only [List.foldl_cons]
    refine ⟨r1, r2, fun _ => ?_⟩
    by_cases hr : rest = []
    · subst hr
      simp only [List.foldl_nil, hst]
      exact (setAdd_mem _ _ _).mpr (Or.inl rfl)
    · exact r3 hr

theorem makeIndex_lengths_equal {D : Type} (ops : DictOps D) (adapters : List Adapter) (isPrefix : Bool) (L : Nat)
    (hne : adapters ≠ []) (hl : ∀ a ∈ adapters, a.indels = false ∧ a.seq.length = L) :
    (makeIndex ops adapters isPrefix).lengths = [L] := by
  have hz : ∀ p ∈ adapters.zipIdx, p.1.indels = false ∧ p.1.seq.length = L := by
    intro p hp
    obtain ⟨a, i⟩ := p
    exact hl a (List.mem_of_getElem? (List.mk_mem_zipIdx_iff_getElem?.mp hp))
  have hne' : adapters.zipIdx ≠ [] := by
    cases adapters with
    | nil => exact absurd rfl hne
    | cons a l => simp [List.zipIdx_cons]
  obtain ⟨r1, r2, r3⟩ := foldl_addAdapter_lengths ops L adapters.zipIdx hz ⟨ops.empty, [], ops.empty, []⟩
    (by simp) (by simp)
  have hmem := r3 hne'
  change (sortDesc (buildAll ops adapters).lengths) = [L]
  change ∀ x ∈ (buildAll ops adapters).lengths, x = L at r1
  change (buildAll ops adapters).lengths.Nodup at r2
  change L ∈ (buildAll ops adapters).lengths at hmem
  generalize (buildAll ops adapters).lengths = ls at r1 r2 hmem
  match ls, r1, r2, hmem with
  | [x], r1, _, _ =>
    have := r1 x (by simp); subst this; rfl
  | x :: y :: rest, r1, r2, _ =>
    have hx := r1 x (by simp)
    have hy := r1 y (by simp)
    rw [List.nodup_cons] at r2
    exact absurd (by simp [hx, hy]) r2.1

/-! ### look-up with one indexed length -/

theorem indexMatchTo_one_hit {D : Type} (ops : DictOps D) (idx : AdapterIndex D) (read : Bytes) (L : Nat)
    (hlens : idx.lengths = [L]) (hN : (78 : UInt8) ∉ read.map asciiUpper) (hpos : idx.isPrefix = false → 1 ≤ L)
    (ai e m : Nat)
    (hg : ops.get? idx.index (removedAffix idx.isPrefix (read.map asciiUpper) L) = some (ai, e, m)) :
    indexMatchTo ops idx read = some (makeMatch idx ai L (m : Int) e read) := by
  simp only [indexMatchTo, hlens, List.length_singleton, beq_self_eq_true, if_true, matchToOneLength, List.headD_cons]
  rw [makeAffix_removed _ _ _ hpos]
  have hNa : (78 : UInt8) ∉ removedAffix idx.isPrefix (read.map asciiUpper) L :=
    fun hc => hN (removedAffix_subset _ _ _ _ hc)
  have hc : (removedAffix idx.isPrefix (read.map asciiUpper) L).contains 78 = false := by simpa using hNa
  simp only [lookupAffix, hc, Bool.false_eq_true, if_false, hg]

/-! ### the nearest admissible adapter wins when there are no ties among admissible adapters -/

/-- `s` is within the tolerance of the adapter at position `j` -/
def Admissible (adapters : List Adapter) (s : Bytes) (j : Nat) (b : Adapter) : Prop :=
  adapters[j]? = some b ∧ Spec.hamming (· == ·) s b.seq ≤ adapterK b

theorem offers_spec (adapters : List Adapter) (L : Nat)
    (hl : ∀ a ∈ adapters, (∀ c ∈ a.seq, c ∈ acgt) ∧ a.seq.length = L ∧ a.indels = false)
    (s : Bytes) (ev : Ev) (hev : ev ∈ forKey s (events adapters)) :
    ∃ b, Admissible adapters s ev.ai b ∧ ev.e = Spec.hamming (· == ·) s b.seq ∧ ev.m = L - ev.e ∧ ev.e ≤ L ∧ s.length = L := by
  have hkey : ev.key = s := by simpa using (List.mem_filter.mp hev).2
  obtain ⟨b, hb, hit⟩ := (mem_events adapters ev).mp (List.mem_filter.mp hev).1
  obtain ⟨hacgt, hlen, hi⟩ := hl b (List.mem_of_getElem? hb)
  rw [items_noindel_mem b hi, hkey] at hit
  obtain ⟨hk, hs, hm⟩ := hit
  obtain ⟨h1, _, h3⟩ := (hammingSphere_spec b.seq ev.e hacgt s).mp hs
  have := hamming_le_length s b.seq
  refine ⟨b, ⟨hb, by omega⟩, h3.symm, by rw [hm, hlen], by omega, by omega⟩

theorem offers_complete (adapters : List Adapter) (s : Bytes) (i : Nat) (a : Adapter)
    (ha : ∀ c ∈ a.seq, c ∈ acgt) (hi : a.indels = false) (hs : ∀ c ∈ s, c ∈ acgt) (hlen : s.length = a.seq.length)
    (hadm : Admissible adapters s i a) :
    (⟨i, s, Spec.hamming (· == ·) s a.seq, a.seq.length - Spec.hamming (· == ·) s a.seq⟩ : Ev) ∈ forKey s (events adapters) := by
  refine List.mem_filter.mpr ⟨?_, by simp⟩
  rw [mem_events]
  refine ⟨a, hadm.1, ?_⟩
  rw [items_noindel_mem a hi]
  exact ⟨hadm.2, (hammingSphere_spec a.seq _ ha s).mpr ⟨hlen, hs, rfl⟩, rfl⟩

theorem two_le_length {α : Type} (l : List α) (h : 2 ≤ l.length) : ∃ x y rest, l = x :: y :: rest := by
  match l, h with
  | x :: y :: rest, _ => exact ⟨x, y, rest, rfl⟩

/-- the entry of the final index for `s` -/
theorem nearest_entry {D : Type} (ops : DictOps D) (hlaw : ops.Lawful) (adapters : List Adapter) (isPrefix : Bool) (L : Nat)
    (hl : ∀ a ∈ adapters, (∀ c ∈ a.seq, c ∈ acgt) ∧ a.seq.length = L ∧ a.indels = false)
    (s : Bytes) (hs : ∀ c ∈ s, c ∈ acgt) (hsl : s.length = L)
    (i : Nat) (a : Adapter) (hadm : Admissible adapters s i a)
    (hstrict : ∀ j b, Admissible adapters s j b → j ≠ i →
      Spec.hamming (· == ·) s a.seq < Spec.hamming (· == ·) s b.seq) :
    ops.get? (makeIndex ops adapters isPrefix).index s =
      some (i, Spec.hamming (· == ·) s a.seq, L - Spec.hamming (· == ·) s a.seq) := by
  obtain ⟨hacgt, hlen, hi⟩ := hl a (List.mem_of_getElem? hadm.1)
  have hall : ∀ a ∈ adapters, ∀ c ∈ a.seq, c ∈ acgt := fun a ha => (hl a ha).1
  have hpw := forKey_pairwise_ai adapters hall s
  have hmine := offers_complete adapters s i a hacgt hi hs (by omega) hadm
  rw [hlen] at hmine
  have hdi := hamming_le_length s a.seq
  -- every offer with as many matches as adapter i's comes from adapter i
  have honly : ∀ ev ∈ forKey s (events adapters), L - Spec.hamming (· == ·) s a.seq ≤ ev.m → ev.ai = i := by
    intro ev hev hm
    obtain ⟨b, hadmb, heb, hmb, hleb, _⟩ := offers_spec adapters L hl s ev hev
    apply Classical.byContradiction
    intro hne
    have := hstrict _ _ hadmb hne
    omega
  cases hks : (keyState (forKey s (events adapters))).1 with
  | none =>
    have := (keyState_none_iff _).mp hks
    rw [this] at hmine
    simp at hmine
  | some en =>
    obtain ⟨aj, e, m⟩ := en
    obtain ⟨ev, hev, h1, h2, h3⟩ := keyState_mem _ aj e m hks
    obtain ⟨b, hadmb, heb, hmb, hleb, _⟩ := offers_spec adapters L hl s ev hev
    have hmax := keyState_max _ aj e m hks
    have hmaxi := hmax _ hmine
    simp only at hmaxi
    have hji : ev.ai = i := honly ev hev (by omega)
    have hba : b = a := by
      have h1' := hadmb.1
      rw [hji, hadm.1] at h1'
      exact (Option.some.inj h1').symm
    subst hba
    -- the best number of matches was offered once: never (finally) marked
    have hflag : (keyState (forKey s (events adapters))).2 = false := by
      cases hb : (keyState (forKey s (events adapters))).2 with
      | false => rfl
      | true =>
        exfalso
        have h2le := (keyState_amb_iff _ aj e m hks).mp hb
        unfold cntM at h2le
        have hpwF := List.Pairwise.filter (fun ev : Ev => ev.m == m) hpw
        obtain ⟨x, y, rest, hF⟩ := two_le_length _ h2le
        · rw [hF, List.pairwise_cons] at hpwF
          have hx : x ∈ (forKey s (events adapters)).filter (fun ev => ev.m == m) := by rw [hF]; simp
          have hy : y ∈ (forKey s (events adapters)).filter (fun ev => ev.m == m) := by rw [hF]; simp
          have hxm : x.m = m := by simpa using (List.mem_filter.mp hx).2
          have hym : y.m = m := by simpa using (List.mem_filter.mp hy).2
          have hxi := honly x (List.mem_filter.mp hx).1 (by omega)
          have hyi := honly y (List.mem_filter.mp hy).1 (by omega)
          exact hpwF.1 y (by simp) (hxi.trans hyi.symm)
    have hfin := (makeIndex_get? ops hlaw adapters isPrefix s).2.2
    rw [hflag] at hfin
    simp only [Bool.false_eq_true, if_false] at hfin
    rw [hfin, hks]
    subst h1 h2 h3
    rw [hji, heb, hmb, heb]

end Cutadapt.Index
