import Cutadapt.Proofs.AlignSoundLoop
/-! Soundness of `Align.locate`, part 4: the fold over columns, the last-column search, the theorem. -/
namespace Cutadapt.Align.Sound
open Cutadapt Cutadapt.Align Cutadapt.Spec Cutadapt.Generated

theorem fold_cols {σ : Type} (f : σ → Nat × UInt8 → σ) (P : Nat → σ → Prop) (lo hi : Nat) (qE : List UInt8)
    (hstep : ∀ j s (hj : j < qE.length), lo ≤ j → j < hi → P j s → P (j+1) (f s (j+1, qE[j]))) :
    ∀ (qs : List UInt8) (a : Nat) (s : σ), qs = qE.drop a → P (min (max a lo) hi) s →
      P (min (max (a + qs.length) lo) hi) (List.foldl f s (((List.range' a qs.length).zip qs).filterMap
        (fun (j0, q) => if lo ≤ j0 && j0 < hi then some (j0+1, q) else none)))
  | [], a, s, _, h => by simpa using h
  | q :: qs, a, s, hqs, h => by
    have ha : a < qE.length := by
      apply Nat.lt_of_not_le; intro hge
      rw [List.drop_eq_nil_of_le hge] at hqs; simp at hqs
    rw [List.drop_eq_getElem_cons ha] at hqs
    have hq : q = qE[a] := (List.cons.inj hqs).1
    have hqs' : qs = qE.drop (a+1) := (List.cons.inj hqs).2
    have ih := fold_cols f P lo hi qE hstep qs (a+1)
    have e : a + (q :: qs).length = a + 1 + qs.length := by simp; omega
    rw [e]
    simp only [List.length_cons, List.range'_succ, List.zip_cons_cons, List.filterMap_cons]
    by_cases hc : lo ≤ a ∧ a < hi
    · have hc' : (decide (lo ≤ a) && decide (a < hi)) = true := by simp [hc]
      simp only [hc', if_true, List.foldl_cons]
      apply ih _ hqs'
      have e1 : min (max a lo) hi = a := by omega
      have e2 : min (max (a+1) lo) hi = a + 1 := by omega
      rw [e1] at h; rw [e2, hq]
      exact hstep a s ha hc.1 hc.2 h
    · have hc' : (decide (lo ≤ a) && decide (a < hi)) = false := by
        simp only [Bool.and_eq_false_iff, decide_eq_false_iff_not]; omega
      simp only [hc', Bool.false_eq_true, if_false]
      apply ih _ hqs'
      have e1 : min (max (a+1) lo) hi = min (max a lo) hi := by omega
      rw [e1]; exact h


theorem fold_cols' {σ : Type} (f : σ → Nat × UInt8 → σ) (P : Nat → σ → Prop) (lo hi : Nat) (qE : List UInt8)
    (hstep : ∀ j s (hj : j < qE.length), lo ≤ j → j < hi → P j s → P (j+1) (f s (j+1, qE[j])))
    (n : Nat) (hn : n = qE.length) (s : σ) (h : P (min lo hi) s) :
    P (min (max n lo) hi) (List.foldl f s (((List.range n).zip qE).filterMap
        (fun (j0, q) => if lo ≤ j0 && j0 < hi then some (j0+1, q) else none))) := by
  subst hn
  rw [List.range_eq_range']
  have := fold_cols f P lo hi qE hstep qE 0 s (by simp) (by simpa using h)
  simpa using this

/-! ### last-column search -/

theorem go_done (cfg : Cfg) (ref : Bytes) (m n : Nat) (col : List Entry) (so : Int) (firstI : Nat)
    (hscore : ∀ i, i ≤ m → (col.getD i default).score ≤ (i : Int)) :
    ∀ (fuel i : Nat) (best : Best), i ≤ m → best.found = true → (m : Int) ≤ best.score →
      lastColumnSearch.go cfg ref m n col so firstI fuel i best = best
  | 0, _, _, _, _, _ => by unfold lastColumnSearch.go; rfl
  | fuel+1, i, best, hi, hf, hs => by
    unfold lastColumnSearch.go
    split
    · rfl
    · have hsc := hscore i hi
      have hnot : ¬ ((col.getD i default).score > best.score) := by
        have : ((i:Nat):Int) ≤ (m:Int) := by exact_mod_cast hi
        omega
      simp only [hf, hnot, Bool.not_true, decide_false, Bool.and_false, Bool.or_false,
        Bool.false_eq_true, if_false]
      split
      · rfl
      · exact go_done cfg ref m n col so firstI hscore fuel (i-1) best (by omega) hf hs

theorem go_sound {cfg : Cfg} {ref query : Bytes} (hwf : cfg.WF ref.length) (col : List Entry) (so : Int)
    (firstI : Nat) (hfirst : cfg.stopInRef = false → firstI = ref.length)
    (hcells : ∀ i, i ≤ ref.length → GoodK (mkCtx cfg ref query) i query.length (col.getD i default)) :
    ∀ (fuel i : Nat) (best : Best), i ≤ ref.length → BestInv cfg ref query best →
      BestInv cfg ref query (lastColumnSearch.go cfg ref ref.length query.length col so firstI fuel i best)
  | 0, _, _, _, hb => by unfold lastColumnSearch.go; exact hb
  | fuel+1, i, best, hi, hb => by
    unfold lastColumnSearch.go
    split
    · exact hb
    · next hge =>
      have hb' : BestInv cfg ref query
          (if (decide (toNatI ((i:Int) + min (col.getD i default).origin 0) ≥ cfg.minOverlap) &&
                decide ((col.getD i default).cost ≤ cfg.thr (effLen cfg ref ref.length
                  (toNatI (-(min (col.getD i default).origin 0))) i
                  (toNatI ((i:Int) + min (col.getD i default).origin 0)))) &&
              (!best.found ||
                (decide (so ≤ best.origin + ((ref.length / 2 : Nat) : Int)) &&
                  decide ((col.getD i default).score > best.score)) ||
                (decide (((toNatI ((i:Int) + min (col.getD i default).origin 0) : Nat) : Int) >
                    (best.refStop : Int) + min best.origin 0) &&
                  decide ((col.getD i default).score > best.score))))
            then (⟨(col.getD i default).origin, (col.getD i default).cost, (col.getD i default).score,
                    i, query.length, true⟩ : Best)
            else best) := by
        split
        · next hacc =>
          simp only [Bool.and_eq_true, decide_eq_true_eq] at hacc
          have hacc' : Acc cfg ref i (col.getD i default) := ⟨hacc.1.1, hacc.1.2⟩
          have hsound := sound_of_accept (query := query) (j := query.length) hwf hi (Nat.le_refl _)
            (hcells i hi) (.inr rfl) (fun hf => by have := hfirst hf; omega) (fun _ => rfl) hacc'
          exact fun _ => hsound
        · exact hb
      split
      · exact hb'
      · exact go_sound hwf col so firstI hfirst hcells fuel (i-1) _ (by omega) hb'

/-! ### the initial state -/

theorem getD_map_range {α : Type} (f : Nat → α) (d : α) (m i : Nat) (hi : i ≤ m) :
    ((List.range (m+1)).map f).getD i d = f i := by
  rw [List.getD_eq_getElem?_getD, List.getElem?_map, List.getElem?_range (by omega)]
  rfl

theorem init_inv {cfg : Cfg} {ref query : Bytes} (hwf : cfg.WF ref.length) (minN : Nat)
    (hminN : minN ≤ query.length) (o : Int) (b : Best) (hb : b.found = false) :
    Inv cfg ref query minN
      ⟨(List.range (ref.length + 1)).map (initEntry cfg minN),
       if cfg.startInRef then ref.length else min ref.length (cfg.k + 1), b, o, 0, false⟩ := by
  have hmlen : (mkCtx cfg ref query).ref.length = ref.length := encodeRef_length cfg ref
  have hnlen : (mkCtx cfg ref query).query.length = query.length := encodeQuery_length cfg query
  refine ⟨fun hf => (by rw [hb] at hf; cases hf), (by simp only; split <;> omega), Nat.zero_le _, ?_,
    fun _ => ⟨?_, ?_⟩, fun h => (by cases h)⟩
  · intro i hi
    simp only [getD_map_range _ _ _ _ hi]
    exact initEntry_score hwf.indel_pos i minN
  · simp [hmlen]
  · intro i hi
    rw [hmlen] at hi
    simp only [getD_map_range _ _ _ _ hi]
    refine ⟨fun _ => ?_, initEntry_score hwf.indel_pos i minN, fun hlt => ?_⟩
    · exact initEntry_good (ctx := mkCtx cfg ref query) hwf.indel_pos (by rw [hmlen]; exact hi)
        (by rw [hnlen]; exact hminN)
    · by_cases hs : cfg.startInRef = true
      · simp only [hs, if_true] at hlt; omega
      · have hs' : cfg.startInRef = false := by simpa using hs
        simp only [hs', Bool.false_eq_true, if_false] at hlt
        exact initEntry_stale hwf.indel_pos hs' i minN (by omega)


/-! ### assembling `locate` -/

/-- the best match `locate` ends up with (same text as `locate`, with lengths of the raw sequences) -/
def finalBest (cfg : Cfg) (refRaw queryRaw : List UInt8) : Best :=
  let ref := encodeRef cfg refRaw
  let query := encodeQuery cfg queryRaw
  let ascii := compareAscii cfg
  let m := refRaw.length
  let n := queryRaw.length
  let k := cfg.k
  let maxN := if !cfg.startInQuery then min n (m + k) else n
  let minN := if !cfg.stopInQuery then n - (m + k) else 0
  let col0 := (List.range (m+1)).map (initEntry cfg minN)
  let last0 := if cfg.startInRef then m else min m (k+1)
  let best0 : Best := ⟨0, m + n + 1, 0, m, n, false⟩
  let cols : List (Nat × UInt8) := ((List.range n).zip query).filterMap
      (fun (j0, q) => if minN ≤ j0 && j0 < maxN then some (j0+1, q) else none)
  let s0 : LoopState := ⟨col0, last0, best0, 0, 0, false⟩
  let s := cols.foldl (columnLoop cfg ascii ref refRaw m) s0
  if maxN == n then
    let firstI := if cfg.stopInRef then 0 else m
    lastColumnSearch cfg refRaw m n s.col s.origin firstI s.lastFilled s.best
  else s.best

theorem locate_eq (cfg : Cfg) (refRaw queryRaw : List UInt8) :
    locate cfg refRaw queryRaw =
      if !(finalBest cfg refRaw queryRaw).found then none else
      some ((decode (finalBest cfg refRaw queryRaw).origin).1, (finalBest cfg refRaw queryRaw).refStop,
            (decode (finalBest cfg refRaw queryRaw).origin).2, (finalBest cfg refRaw queryRaw).queryStop,
            (finalBest cfg refRaw queryRaw).score, (finalBest cfg refRaw queryRaw).cost) := by
  unfold locate finalBest
  simp only [encodeRef_length, encodeQuery_length]
  split
  · rfl
  · unfold decode toNatI
    split <;> rfl


theorem finalBest_inv {cfg : Cfg} {ref query : Bytes} (hwf : cfg.WF ref.length) :
    BestInv cfg ref query (finalBest cfg ref query) := by
  unfold finalBest
  simp only []
  generalize hmaxN : (if (!cfg.startInQuery) = true then min query.length (ref.length + cfg.k) else query.length) = maxN
  generalize hminN : (if (!cfg.stopInQuery) = true then query.length - (ref.length + cfg.k) else 0) = minN
  have hmax_le : maxN ≤ query.length := by rw [← hmaxN]; split <;> omega
  have hmin_le : minN ≤ query.length := by rw [← hminN]; split <;> omega
  have hfold := fold_cols' (columnLoop cfg (compareAscii cfg) (encodeRef cfg ref) ref ref.length)
    (fun j s => (minN ≤ maxN → Inv cfg ref query j s) ∧ (maxN < minN → s.best.found = false))
    minN maxN (encodeQuery cfg query)
    (fun j s hj h1 h2 hP => ⟨fun _ => columnLoop_inv hwf (by rw [← encodeQuery_length cfg query]; exact hj)
      (hP.1 (by omega)), fun h => by omega⟩)
    query.length (encodeQuery_length cfg query).symm
    ⟨(List.range (ref.length + 1)).map (initEntry cfg minN),
       if cfg.startInRef then ref.length else min ref.length (cfg.k + 1),
       ⟨0, ref.length + query.length + 1, 0, ref.length, query.length, false⟩, 0, 0, false⟩
    ⟨fun hle => by
        have e : min minN maxN = minN := by omega
        rw [e]
        exact init_inv hwf minN hmin_le 0 _ rfl,
     fun _ => rfl⟩
  have e : min (max query.length minN) maxN = maxN := by omega
  rw [e] at hfold
  generalize List.foldl (columnLoop cfg (compareAscii cfg) (encodeRef cfg ref) ref ref.length) _ _ = sf at hfold ⊢
  obtain ⟨hf1, hf2⟩ := hfold
  split
  · next hmn =>
    have hmn' : maxN = query.length := by simpa using hmn
    have hinv := hf1 (by omega)
    rw [hmn'] at hinv
    unfold lastColumnSearch
    by_cases hd : sf.done = true
    · obtain ⟨hfound, hsc⟩ := hinv.doneBest hd
      rw [go_done _ _ _ _ _ _ _ (fun i hi => (hinv.score i hi).1) _ _ _ hinv.filled_le hfound hsc]
      exact hinv.best
    · have hd' : sf.done = false := by simpa using hd
      have hcol := hinv.col hd'
      have hmlen : (mkCtx cfg ref query).ref.length = ref.length := encodeRef_length cfg ref
      refine go_sound hwf _ _ _ ?_ (fun i hi => (hcol.cells i (by rw [hmlen]; exact hi)).1) _ _ _ hinv.filled_le
        hinv.best
      intro hsr
      simp [hsr]
  · next hmn =>
    by_cases hle : minN ≤ maxN
    · exact (hf1 hle).best
    · intro hfound
      rw [hf2 (by omega)] at hfound
      cases hfound

end Cutadapt.Align.Sound

namespace Cutadapt.Align
open Cutadapt.Align.Sound

theorem locate_sound (cfg : Cfg) (ref query : Bytes) (hwf : cfg.WF ref.length)
    {as ae rs re : Nat} {score : Int} {e : Nat}
    (h : locate cfg ref query = some (as, ae, rs, re, score, e)) :
    SoundResult cfg ref query as ae rs re e := by
  rw [locate_eq] at h
  have hb := finalBest_inv (query := query) hwf
  generalize finalBest cfg ref query = best at h hb
  split at h
  · cases h
  · next hf =>
    have hf' : best.found = true := by simpa using hf
    have hs := hb hf'
    simp only [Option.some.injEq, Prod.mk.injEq] at h
    obtain ⟨h1, h2, h3, h4, _, h6⟩ := h
    subst h1 h2 h3 h4 h6
    exact hs

end Cutadapt.Align
