import Cutadapt.Index
import Std.Data.HashMap.Lemmas
/-! The two dictionary instances of `Cutadapt/Index.lean` satisfy the lookup laws. -/
namespace Cutadapt.Index

theorem alistGet_insert (d : List (Bytes × Entry)) (k : Bytes) (v : Entry) (k' : Bytes) :
    alistGet (alistInsert d k v) k' = if k = k' then some v else alistGet d k' := by
  induction d with
  | nil => simp [alistInsert, alistGet]
  | cons p rest ih =>
    obtain ⟨k0, v0⟩ := p
    simp only [alistInsert]
    by_cases h0 : k0 = k
    · subst h0
      simp only [if_true, alistGet]
      by_cases h1 : k0 = k' <;> simp [h1]
    · simp only [h0, if_false, alistGet, ih]
      by_cases h1 : k0 = k'
      · subst h1
        have : ¬ k = k0 := fun h => h0 h.symm
        simp [this]
      · simp [h1]

theorem alistGet_erase (d : List (Bytes × Entry)) (k k' : Bytes) :
    alistGet (alistErase d k) k' = if k = k' then none else alistGet d k' := by
  induction d with
  | nil => simp [alistErase, alistGet]
  | cons p rest ih =>
    obtain ⟨k0, v0⟩ := p
    simp only [alistErase]
    by_cases h0 : k0 = k
    · subst h0
      simp only [if_true, ih, alistGet]
      by_cases h1 : k0 = k' <;> simp [h1]
    · simp only [h0, if_false, alistGet, ih]
      by_cases h1 : k0 = k'
      · subst h1
        have : ¬ k = k0 := fun h => h0 h.symm
        simp [this]
      · simp [h1]

theorem alistOps_lawful : alistOps.Lawful :=
  ⟨fun _ => rfl, alistGet_insert, alistGet_erase⟩

theorem hashOps_lawful : hashOps.Lawful := by
  refine ⟨?_, ?_, ?_⟩
  · intro k; simp [hashOps]
  · intro d k v k'; simp [hashOps, Std.HashMap.getElem?_insert]
  · intro d k k'; simp [hashOps, Std.HashMap.getElem?_erase]

end Cutadapt.Index
