import Cutadapt.Proofs.IndexFold
import Cutadapt.Proofs.IndexSphere
import Cutadapt.Proofs.IndexEnv
/-! `lengths` of `_make_index`: every key's length is in it, and every member is the length of an offered string. -/
namespace Cutadapt.Index
open Cutadapt Cutadapt.Adapters

theorem setAdd_mem (l : List Nat) (x y : Nat) : y ∈ setAdd l x ↔ y = x ∨ y ∈ l := by
  unfold setAdd
  split
  · rename_i h
    have hx : x ∈ l := by simpa using h
    constructor
    · intro hy; exact Or.inr hy
    · rintro (rfl | hy)
      · exact hx
      · exact hy
  · simp

theorem setAdd_nodup (l : List Nat) (x : Nat) (h : l.Nodup) : (setAdd l x).Nodup := by
  unfold setAdd
  split
  · exact h
  · rename_i hc
    have hx : x ∉ l := by simpa using hc
    exact List.nodup_cons.mpr ⟨hx, h⟩

/-- `addEntry` either skips (`continue`: the key is present already) or assigns `index[key]` -/
theorem addEntry_cases {D : Type} (ops : DictOps D) (ai : Nat) (addLen : Bool) (st : Build D) (key : Bytes) (e m : Nat) :
    (addEntry ops ai addLen st (key, e, m) = st ∧ ops.get? st.index key ≠ none) ∨
    ((addEntry ops ai addLen st (key, e, m)).index = ops.insert st.index key (ai, e, m) ∧
     (addEntry ops ai addLen st (key, e, m)).lengths = (if addLen then setAdd st.lengths key.length else st.lengths)) := by
  simp only [addEntry]
  split
  · rename_i oa oe om hg
    split
    · left; exact ⟨rfl, by simp [hg]⟩
    · right
      split
      · exact ⟨rfl, rfl⟩
      · split <;> exact ⟨rfl, rfl⟩
  · right; exact ⟨rfl, rfl⟩

/-- `KeyLen n`: every key's length is in `lengths` or equals `n` (the pending `lengths.add(n)` of the Hamming branch) -/
def KeyLen {D : Type} (ops : DictOps D) (st : Build D) (n : Option Nat) : Prop :=
  ∀ s, ops.get? st.index s ≠ none → s.length ∈ st.lengths ∨ some s.length = n

def LenOffered (evs : List Ev) (st : Build D) : Prop :=
  ∀ l ∈ st.lengths, ∃ ev ∈ evs, ev.key.length = l

theorem keyLen_addEntry {D : Type} (ops : DictOps D) (hl : ops.Lawful) (ai : Nat) (addLen : Bool) (st : Build D)
    (key : Bytes) (e m : Nat) (n : Option Nat) (hn : addLen = false → some key.length = n) (h : KeyLen ops st n) :
    KeyLen ops (addEntry ops ai addLen st (key, e, m)) n := by
  rcases addEntry_cases ops ai addLen st key e m with ⟨heq, _⟩ | ⟨hidx, hlen⟩
  · rw [heq]; exact h
  · intro s hs
    rw [hidx, hl.get?_insert] at hs
    rw [hlen]
    by_cases hk : key = s
    · subst hk
      cases addLen with
      | true => left; simp [setAdd_mem]
      | false => right; exact hn rfl
    · simp only [hk, if_false] at hs
      rcases h s hs with h' | h'
      · left
        cases addLen with
        | true => simp [setAdd_mem, h']
        | false => simpa using h'
      · right; exact h'

theorem lenOffered_addEntry {D : Type} (ops : DictOps D) (ai : Nat) (addLen : Bool) (st : Build D)
    (key : Bytes) (e m : Nat) (evs : List Ev) (h : LenOffered evs st) :
    LenOffered (evs ++ [⟨ai, key, e, m⟩]) (addEntry ops ai addLen st (key, e, m)) := by
  have hmono : ∀ l, (∃ ev ∈ evs, ev.key.length = l) → ∃ ev ∈ evs ++ [(⟨ai, key, e, m⟩ : Ev)], ev.key.length = l := by
    rintro l ⟨ev, hev, h'⟩; exact ⟨ev, by simp [hev], h'⟩
  rcases addEntry_cases ops ai addLen st key e m with ⟨heq, _⟩ | ⟨_, hlen⟩
  · rw [heq]; intro l hl'; exact hmono l (h l hl')
  · intro l hl'
    rw [hlen] at hl'
    cases addLen with
    | true =>
      simp only [if_true, setAdd_mem] at hl'
      rcases hl' with rfl | hl'
      · exact ⟨⟨ai, key, e, m⟩, by simp, rfl⟩
      · exact hmono l (h l hl')
    | false =>
      simp only [Bool.false_eq_true, if_false] at hl'
      exact hmono l (h l hl')

theorem len_foldl_items {D : Type} (ops : DictOps D) (hl : ops.Lawful) (ai : Nat) (addLen : Bool) (n : Option Nat)
    (items : List (Bytes × Nat × Nat)) (hn : addLen = false → ∀ it ∈ items, some it.1.length = n) :
    ∀ (evs : List Ev) (st : Build D), KeyLen ops st n → LenOffered evs st →
    KeyLen ops (items.foldl (addEntry ops ai addLen) st) n ∧
    LenOffered (evs ++ items.map (fun it => ⟨ai, it.1, it.2.1, it.2.2⟩)) (items.foldl (addEntry ops ai addLen) st) := by
  induction items with
  | nil => intro evs st h1 h2; exact ⟨h1, by simpa using h2⟩
  | cons it rest ih =>
    intro evs st h1 h2
    obtain ⟨key, e, m⟩ := it
    have k1 := keyLen_addEntry ops hl ai addLen st key e m n (fun h => hn h (key, e, m) (by simp)) h1
    have k2 := lenOffered_addEntry ops ai addLen st key e m evs h2
    have := ih (fun h it hit => hn h it (by simp [hit])) _ _ k1 k2
    simpa [List.append_assoc] using this

theorem items_noindel_length (a : Adapter) (ha : ∀ c ∈ a.seq, c ∈ acgt) (hi : a.indels = false) :
    ∀ it ∈ adapterItems a, it.1.length = a.seq.length := by
  intro it hit
  unfold adapterItems at hit
  simp only [hi, Bool.false_eq_true, if_false, List.mem_flatMap, List.mem_range, List.mem_map] at hit
  obtain ⟨e', _, s', hs', rfl⟩ := hit
  exact ((hammingSphere_spec a.seq e' ha s').mp hs').1

theorem items_noindel_self (a : Adapter) (hi : a.indels = false) : (a.seq, 0, a.seq.length) ∈ adapterItems a := by
  unfold adapterItems
  simp only [hi, Bool.false_eq_true, if_false, List.mem_flatMap, List.mem_range, List.mem_map]
  exact ⟨0, by omega, a.seq, by simp [hammingSphere, hammingSphereK], by simp⟩

theorem len_addAdapter {D : Type} (ops : DictOps D) (hl : ops.Lawful) (evs : List Ev) (st : Build D) (aia : Adapter × Nat)
    (ha : ∀ c ∈ aia.1.seq, c ∈ acgt) (h1 : KeyLen ops st none) (h2 : LenOffered evs st) :
    KeyLen ops (addAdapter ops st aia) none ∧ LenOffered (evs ++ adapterEvents aia) (addAdapter ops st aia) := by
  obtain ⟨a, ai⟩ := aia
  simp only [addAdapter, adapterEvents]
  cases hi : a.indels
  · -- Hamming branch: `lengths.add(n)` after the loops
    simp only [Bool.false_eq_true, if_false]
    have hw : KeyLen ops st (some a.seq.length) := fun s hs => (h1 s hs).elim Or.inl (fun h => by simp at h)
    obtain ⟨k1, k2⟩ := len_foldl_items ops hl ai false (some a.seq.length) (adapterItems a)
      (fun _ it hit => by rw [items_noindel_length a ha hi it hit]) evs st hw h2
    constructor
    · intro s hs
      left
      show s.length ∈ setAdd _ a.seq.length
      rw [setAdd_mem]
      rcases k1 s hs with h' | h'
      · exact Or.inr h'
      · left; simpa using h'
    · intro l hl'
      change l ∈ setAdd _ a.seq.length at hl'
      rw [setAdd_mem] at hl'
      rcases hl' with rfl | hl'
      · refine ⟨⟨ai, a.seq, 0, a.seq.length⟩, ?_, rfl⟩
        simp only [List.mem_append, List.mem_map]
        right
        exact ⟨(a.seq, 0, a.seq.length), items_noindel_self a hi, rfl⟩
      · exact k2 l hl'
  · simp only [if_true]
    exact len_foldl_items ops hl ai true none (adapterItems a) (fun h => by simp at h) evs st h1 h2

theorem len_foldl_adapters {D : Type} (ops : DictOps D) (hl : ops.Lawful) (l : List (Adapter × Nat))
    (ha : ∀ p ∈ l, ∀ c ∈ p.1.seq, c ∈ acgt) :
    ∀ (evs : List Ev) (st : Build D), KeyLen ops st none → LenOffered evs st →
    KeyLen ops (l.foldl (addAdapter ops) st) none ∧ LenOffered (evs ++ l.flatMap adapterEvents) (l.foldl (addAdapter ops) st) := by
  induction l with
  | nil => intro evs st h1 h2; exact ⟨h1, by simpa using h2⟩
  | cons aia rest ih =>
    intro evs st h1 h2
    obtain ⟨k1, k2⟩ := len_addAdapter ops hl evs st aia (ha aia (by simp)) h1 h2
    have := ih (fun p hp => ha p (by simp [hp])) _ _ k1 k2
    simpa [List.append_assoc] using this

/-- **`lengths` after `_make_index`** (adapters over ACGT): the length of every key of the index is a member, and
    every member is the length of a string some adapter offered. -/
theorem buildAll_lengths {D : Type} (ops : DictOps D) (hl : ops.Lawful) (adapters : List Adapter)
    (ha : ∀ a ∈ adapters, ∀ c ∈ a.seq, c ∈ acgt) :
    (∀ s, ops.get? (buildAll ops adapters).index s ≠ none → s.length ∈ (buildAll ops adapters).lengths) ∧
    (∀ l ∈ (buildAll ops adapters).lengths, ∃ ev ∈ events adapters, ev.key.length = l) := by
  have hz : ∀ p ∈ adapters.zipIdx, ∀ c ∈ p.1.seq, c ∈ acgt := by
    intro p hp
    obtain ⟨a, i⟩ := p
    exact ha a (List.mem_of_getElem? (List.mk_mem_zipIdx_iff_getElem?.mp hp))
  obtain ⟨k1, k2⟩ := len_foldl_adapters ops hl adapters.zipIdx hz [] ⟨ops.empty, [], ops.empty, []⟩
    (fun s hs => by simp [hl.get?_empty] at hs) (fun l hl' => by simp at hl')
  constructor
  · intro s hs
    rcases k1 s hs with h' | h'
    · exact h'
    · simp at h'
  · rw [List.nil_append] at k2
    exact k2

end Cutadapt.Index
