import Cutadapt.Modifiers
/-! `MultipleAdapters.match_to` (`bestMatch`) is an arg-max; the `--times` loop (`rounds`): helper lemmas for C09. -/
namespace Cutadapt
open Cutadapt.Adapters

/-- candidate `(m, k)` (match `m` of the adapter at position `k`) is at least as good as `(m', j)`:
    higher score, then fewer errors, then earlier adapter -/
def Dominates (m : AnyMatch) (k : Nat) (m' : AnyMatch) (j : Nat) : Prop :=
  m'.score < m.score ∨ (m'.score = m.score ∧ m.errors < m'.errors) ∨ (m'.score = m.score ∧ m'.errors = m.errors ∧ k ≤ j)

theorem Dominates.refl (m : AnyMatch) (k : Nat) : Dominates m k m k := by
  unfold Dominates; omega

theorem Dominates.trans {a b c : AnyMatch} {i j k : Nat} (h1 : Dominates a i b j) (h2 : Dominates b j c k) : Dominates a i c k := by
  unfold Dominates at *; omega

theorem dominates_of_better {m b : AnyMatch} (h : better m b = true) (i kb : Nat) : Dominates m i b kb := by
  unfold better at h
  unfold Dominates
  simp at h
  omega

theorem dominates_of_not_better {m b : AnyMatch} (h : ¬ better m b = true) {i kb : Nat} (hk : kb ≤ i) : Dominates b kb m i := by
  unfold better at h
  unfold Dominates
  simp at h
  omega

/-- invariant of the loop of `MultipleAdapters.match_to`, with the position `kb` of the adapter that produced the
    running best -/
theorem bestMatchGo_spec (s : Bytes) : ∀ (as : List Matchable) (i : Nat) (best : Option AnyMatch) (kb : Nat),
    (best.isSome → kb < i) →
    match bestMatchGo s as i best with
    | none => best = none ∧ ∀ (j : Nat) (a : Matchable), as[j]? = some a → a.matchTo (i + j) s = none
    | some m => ∃ k, ((best = some m ∧ k = kb) ∨ (∃ (j : Nat) (a : Matchable), as[j]? = some a ∧ k = i + j ∧ a.matchTo k s = some m)) ∧
        (∀ b, best = some b → Dominates m k b kb) ∧
        (∀ (j : Nat) (a : Matchable) (m' : AnyMatch), as[j]? = some a → a.matchTo (i + j) s = some m' → Dominates m k m' (i + j))
  | [], i, best, kb, _ => by
    cases best with
    | none => simp [bestMatchGo]
    | some b =>
      simp only [bestMatchGo]
      exact ⟨kb, by simp, fun b' hb => by cases hb; exact Dominates.refl _ _, by simp⟩
  | a :: as, i, best, kb, hkb => by
    unfold bestMatchGo
    -- shifting the index of the tail
    have shift : ∀ (P : Nat → Matchable → Prop), (∀ j a', as[j]? = some a' → P (i + 1 + j) a') → P i a →
        ∀ (j : Nat) (a' : Matchable), (a :: as)[j]? = some a' → P (i + j) a' := by
      intro P h1 h0 j a' hj
      cases j with
      | zero => simp at hj; subst hj; exact h0
      | succ j =>
        simp at hj
        have := h1 j a' hj
        have e : i + 1 + j = i + (j + 1) := by omega
        rwa [e] at this
    cases hm : a.matchTo i s with
    | none =>
      simp only []
      have ih := bestMatchGo_spec s as (i+1) best kb (fun h => by have := hkb h; omega)
      cases hr : bestMatchGo s as (i+1) best with
      | none =>
        rw [hr] at ih
        refine ⟨ih.1, ?_⟩
        exact shift (fun k a' => a'.matchTo k s = none) ih.2 hm
      | some m =>
        rw [hr] at ih
        obtain ⟨k, hsrc, hb, hall⟩ := ih
        refine ⟨k, ?_, hb, ?_⟩
        · rcases hsrc with h | ⟨j, a', hj, hk, hmt⟩
          · exact Or.inl h
          · exact Or.inr ⟨j+1, a', by simpa using hj, by omega, hmt⟩
        · intro j a' m' hj hm'
          cases j with
          | zero => simp at hj; subst hj; simp [hm] at hm'
          | succ j =>
            simp at hj
            have e : i + (j + 1) = i + 1 + j := by omega
            rw [e] at hm' ⊢
            exact hall j a' m' hj hm'
    | some m0 =>
      simp only []
      -- the new running best and its position
      have key : ∀ (nb : AnyMatch) (nk : Nat), nk < i + 1 →
          (∀ b, best = some b → Dominates nb nk b kb) → Dominates nb nk m0 i →
          ((best = some nb ∧ nk = kb) ∨ (nb = m0 ∧ nk = i)) →
          match bestMatchGo s as (i+1) (some nb) with
          | none => best = none ∧ ∀ (j : Nat) (a' : Matchable), (a :: as)[j]? = some a' → a'.matchTo (i + j) s = none
          | some m => ∃ k, ((best = some m ∧ k = kb) ∨ (∃ (j : Nat) (a' : Matchable), (a :: as)[j]? = some a' ∧ k = i + j ∧ a'.matchTo k s = some m)) ∧
              (∀ b, best = some b → Dominates m k b kb) ∧
              (∀ (j : Nat) (a' : Matchable) (m' : AnyMatch), (a :: as)[j]? = some a' → a'.matchTo (i + j) s = some m' → Dominates m k m' (i + j)) := by
        intro nb nk hnk hdb hdm hsrc0
        have ih := bestMatchGo_spec s as (i+1) (some nb) nk (fun _ => hnk)
        cases hr : bestMatchGo s as (i+1) (some nb) with
        | none => rw [hr] at ih; simp at ih
        | some m =>
          rw [hr] at ih
          obtain ⟨k, hsrc, hb, hall⟩ := ih
          have hmn : Dominates m k nb nk := hb nb rfl
          refine ⟨k, ?_, ?_, ?_⟩
          · rcases hsrc with ⟨h1, h2⟩ | ⟨j, a', hj, hk, hmt⟩
            · cases h1
              rcases hsrc0 with ⟨h3, h4⟩ | ⟨h3, h4⟩
              · exact Or.inl ⟨h3, by omega⟩
              · exact Or.inr ⟨0, a, by simp, by omega, by rw [h2, h4, hm, h3]⟩
            · exact Or.inr ⟨j+1, a', by simpa using hj, by omega, hmt⟩
          · intro b hb'
            exact hmn.trans (hdb b hb')
          · intro j a' m' hj hm'
            cases j with
            | zero =>
              simp at hj; subst hj
              simp [hm] at hm'; subst hm'
              exact hmn.trans hdm
            | succ j =>
              simp at hj
              have e : i + (j + 1) = i + 1 + j := by omega
              rw [e] at hm' ⊢
              exact hall j a' m' hj hm'
      cases hbest : best with
      | none =>
        simp only []
        have := key m0 i (by omega) (by simp [hbest]) (Dominates.refl _ _) (Or.inr ⟨rfl, rfl⟩)
        simpa [hbest] using this
      | some b =>
        simp only []
        have hkb' : kb < i := hkb (by simp [hbest])
        by_cases hbt : better m0 b = true
        · rw [if_pos hbt]
          have := key m0 i (by omega) (by intro b' hb'; rw [hbest] at hb'; cases hb'; exact dominates_of_better hbt _ _)
            (Dominates.refl _ _) (Or.inr ⟨rfl, rfl⟩)
          simpa [hbest] using this
        · rw [if_neg hbt]
          have := key b kb (by omega) (by intro b' hb'; rw [hbest] at hb'; cases hb'; exact Dominates.refl _ _)
            (dominates_of_not_better hbt (by omega)) (Or.inl ⟨hbest, rfl⟩)
          simpa [hbest] using this

theorem bestMatch_some_spec (ads : List Matchable) (s : Bytes) (m : AnyMatch) (h : bestMatch ads s = some m) :
    ∃ k, (ads[k]?.bind (·.matchTo k s)) = some m ∧
      ∀ (j : Nat) (a : Matchable) (m' : AnyMatch), ads[j]? = some a → a.matchTo j s = some m' → Dominates m k m' j := by
  have := bestMatchGo_spec s ads 0 none 0 (by simp)
  unfold bestMatch at h
  rw [h] at this
  obtain ⟨k, hsrc, _, hall⟩ := this
  refine ⟨k, ?_, ?_⟩
  · rcases hsrc with ⟨h1, _⟩ | ⟨j, a, hj, hk, hmt⟩
    · cases h1
    · have : k = j := by omega
      subst this
      simp [hj, hmt]
  · intro j a m' hj hm'
    have := hall j a m' hj (by simpa using hm')
    simpa using this

theorem bestMatch_none_iff (ads : List Matchable) (s : Bytes) :
    bestMatch ads s = none ↔ ∀ (j : Nat) (a : Matchable), ads[j]? = some a → a.matchTo j s = none := by
  have := bestMatchGo_spec s ads 0 none 0 (by simp)
  unfold bestMatch
  constructor
  · intro h
    rw [h] at this
    simpa using this.2
  · intro h
    cases hr : bestMatchGo s ads 0 none with
    | none => rfl
    | some m =>
      rw [hr] at this
      obtain ⟨k, hsrc, _, _⟩ := this
      rcases hsrc with ⟨h1, _⟩ | ⟨j, a, hj, hk, hmt⟩
      · cases h1
      · have := h j a hj
        have e : k = j := by omega
        rw [e] at hmt
        rw [this] at hmt; cases hmt

theorem bestMatch_singleton (a : Matchable) (s : Bytes) : bestMatch [a] s = a.matchTo 0 s := by
  unfold bestMatch bestMatchGo
  cases a.matchTo 0 s <;> simp [bestMatchGo]

/-! ### the `--times` loop -/

theorem rounds_acc (ads : List Matchable) : ∀ (t : Nat) (rd : Read) (acc : List AnyMatch),
    rounds ads t rd acc = ((rounds ads t rd []).1, acc.reverse ++ (rounds ads t rd []).2)
  | 0, rd, acc => by simp [rounds]
  | t+1, rd, acc => by
    unfold rounds
    cases bestMatch ads rd.seq with
    | none => simp
    | some m =>
      simp only []
      rw [rounds_acc ads t _ (m :: acc), rounds_acc ads t _ [m]]
      simp

theorem rounds_succ (ads : List Matchable) (t : Nat) (rd : Read) :
    rounds ads (t+1) rd [] =
      match bestMatch ads rd.seq with
      | none => (rd, [])
      | some m => ((rounds ads t (m.trimmed rd) []).1, m :: (rounds ads t (m.trimmed rd) []).2) := by
  conv => lhs; unfold rounds
  cases bestMatch ads rd.seq with
  | none => simp
  | some m => simp only []; rw [rounds_acc]; simp

/-- the read after the first `i` rounds -/
def readAfter (read : Read) (ms : List AnyMatch) (i : Nat) : Read := (ms.take i).foldl (fun r m => m.trimmed r) read

theorem readAfter_zero (read : Read) (ms : List AnyMatch) : readAfter read ms 0 = read := by simp [readAfter]
theorem readAfter_cons_succ (read : Read) (m : AnyMatch) (ms : List AnyMatch) (i : Nat) :
    readAfter read (m :: ms) (i+1) = readAfter (m.trimmed read) ms i := by simp [readAfter]
theorem readAfter_succ (read : Read) (ms : List AnyMatch) (i : Nat) (h : i < ms.length) :
    readAfter read ms (i+1) = ms[i].trimmed (readAfter read ms i) := by
  unfold readAfter
  rw [List.take_succ_eq_append_getElem h, List.foldl_append]; simp

theorem rounds_spec (ads : List Matchable) : ∀ (t : Nat) (read : Read),
    let ms := (rounds ads t read []).2
    let tr := (rounds ads t read []).1
    ms.length ≤ t ∧
    (∀ i (h : i < ms.length), bestMatch ads (readAfter read ms i).seq = some ms[i]) ∧
    tr = readAfter read ms ms.length ∧
    (ms.length < t → bestMatch ads tr.seq = none)
  | 0, read => by simp [rounds, readAfter]
  | t+1, read => by
    rw [rounds_succ]
    cases hb : bestMatch ads read.seq with
    | none => simp [readAfter, hb]
    | some m =>
      obtain ⟨h1, h2, h3, h4⟩ := rounds_spec ads t (m.trimmed read)
      simp only [] at h1 h2 h3 h4 ⊢
      refine ⟨by simp; omega, ?_, ?_, ?_⟩
      · intro i hi
        cases i with
        | zero => simp [readAfter_zero, hb]
        | succ i =>
          rw [readAfter_cons_succ]
          simp only [List.getElem_cons_succ]
          exact h2 i (by simpa using hi)
      · rw [List.length_cons, readAfter_cons_succ]; exact h3
      · intro hlt
        exact h4 (by simpa using hlt)

end Cutadapt
