import Cutadapt.Proofs.ParserStr
/-! `parse_search_parameters` on rendered parameter lists (C18): character classes, numbers, fields, the whole list. -/
namespace Cutadapt.ParserProofs
open Cutadapt.Parser Cutadapt.Notation

/-! ## character classes -/

/-- characters that never act as a separator: not `;` `:` `=` `.`, not blank, ASCII -/
def plainChar (c : Char) : Bool :=
  c != ';' && c != ':' && c != '=' && c != '.' && !isSpace c && decide (c.toNat < 128)

def digitChars : Str := cs!"0123456789"
def pnameChars : Str := cs!"abcdefghijklmnopqrstuvwxyz_"

theorem all_mem {l : Str} {P : Char → Bool} (h : l.all P = true) {c : Char} (hc : c ∈ l) : P c = true :=
  List.all_eq_true.mp h c hc

theorem digitChar_mem {d : Nat} (h : d < 10) : digitChar d ∈ digitChars := by
  rcases lt_ten_cases h with rfl|rfl|rfl|rfl|rfl|rfl|rfl|rfl|rfl|rfl <;> decide

theorem mem_natDigits {n : Nat} {c : Char} (hc : c ∈ natDigits n) : c ∈ digitChars := by
  induction n using Nat.strongRecOn with
  | _ n ih =>
    by_cases h : n < 10
    · rw [natDigits_lt h] at hc; simp at hc; subst hc; exact digitChar_mem h
    · rw [natDigits_ge h] at hc
      simp only [List.mem_append, List.mem_singleton] at hc
      rcases hc with hc | hc
      · exact ih (n / 10) (by omega) hc
      · subst hc; exact digitChar_mem (Nat.mod_lt n (by decide : 10 > 0))

theorem mem_fracChars {frac : List (Fin 10)} {c : Char} (hc : c ∈ fracChars frac) : c ∈ digitChars := by
  simp only [fracChars, List.mem_map] at hc
  obtain ⟨d, _, rfl⟩ := hc
  exact digitChar_mem d.isLt

theorem digit_plain {c : Char} (h : c ∈ digitChars) : plainChar c = true := all_mem (l := digitChars) (by decide) h
theorem digit_isDigit {c : Char} (h : c ∈ digitChars) : isDigit c = true := all_mem (l := digitChars) (by decide) h
theorem pname_plain {c : Char} (h : c ∈ pnameChars) : plainChar c = true := all_mem (l := pnameChars) (by decide) h
theorem name_plain {c : Char} (h : c ∈ nameChars) : plainChar c = true := all_mem (l := nameChars) (by decide) h
theorem seq_plain {c : Char} (h : c ∈ seqChars) : plainChar c = true := all_mem (l := seqChars) (by decide) h

theorem pname_chars (n : PName) : ∀ c ∈ n.render, c ∈ pnameChars := by
  cases n <;> decide

theorem plain_ne {c : Char} (h : plainChar c = true) :
    c ≠ ';' ∧ c ≠ ':' ∧ c ≠ '=' ∧ c ≠ '.' ∧ isSpace c = false ∧ c.toNat < 128 := by
  simp only [plainChar, Bool.and_eq_true, bne_iff_ne, ne_eq, Bool.not_eq_true', decide_eq_true_eq] at h
  obtain ⟨⟨⟨⟨⟨h1, h2⟩, h3⟩, h4⟩, h5⟩, h6⟩ := h
  exact ⟨h1, h2, h3, h4, h5, h6⟩

/-! ## numbers -/

theorem takeWhile_append_stop {p : Char → Bool} {a : Str} {x : Char} (b : Str) (ha : ∀ c ∈ a, p c = true) (hx : p x = false) :
    (a ++ x :: b).takeWhile p = a := by
  induction a with
  | nil => simp [List.takeWhile, hx]
  | cons y r ih =>
    simp only [List.cons_append, List.takeWhile, ha y (by simp)]
    rw [ih (fun c hc => ha c (by simp [hc]))]

theorem dropWhile_append_stop {p : Char → Bool} {a : Str} {x : Char} (b : Str) (ha : ∀ c ∈ a, p c = true) (hx : p x = false) :
    (a ++ x :: b).dropWhile p = x :: b := by
  induction a with
  | nil => simp [List.dropWhile, hx]
  | cons y r ih =>
    simp only [List.cons_append, List.dropWhile, ha y (by simp)]
    rw [ih (fun c hc => ha c (by simp [hc]))]

theorem natDigits_isDigit {n : Nat} : ∀ c ∈ natDigits n, isDigit c = true :=
  fun _ hc => digit_isDigit (mem_natDigits hc)

theorem pyNumber_render (l : NumLit) : pyNumber l.render = .ok l.value := by
  cases l with
  | int n =>
    simp [NumLit.render, NumLit.value, pyNumber, natDigits_ne_nil, natDigits_all_digit, parseDigits_natDigits]
  | dec ip frac =>
    have hdot : isDigit '.' = false := by decide
    have hnot : ¬ ((natDigits ip ++ '.' :: fracChars frac) ≠ [] ∧ (natDigits ip ++ '.' :: fracChars frac).all isDigit = true) := by
      intro h
      have := List.all_eq_true.mp h.2 '.' (by simp)
      rw [hdot] at this; exact Bool.noConfusion this
    simp only [NumLit.render, NumLit.value, pyNumber]
    simp only [hnot, if_false, takeWhile_append_stop _ natDigits_isDigit hdot, dropWhile_append_stop _ natDigits_isDigit hdot]
    simp only [fracChars_all_digit, natDigits_ne_nil, ne_eq, not_false_eq_true, true_or, and_self, if_true]
    rw [parseDigits_append, parseDigits_natDigits, foldl_fracChars]
    simp [fracChars]

theorem numlit_chars {l : NumLit} : ∀ c ∈ l.render, c ∈ digitChars ∨ c = '.' := by
  intro c hc
  cases l with
  | int n => exact Or.inl (mem_natDigits hc)
  | dec ip frac =>
    simp only [NumLit.render, List.mem_append, List.mem_cons] at hc
    rcases hc with hc | hc | hc
    · exact Or.inl (mem_natDigits hc)
    · exact Or.inr hc
    · exact Or.inl (mem_fracChars hc)

theorem numlit_ne_nil (l : NumLit) : l.render ≠ [] := by
  cases l <;> simp [NumLit.render, natDigits_ne_nil]

/-- characters of a rendered parameter: not `;` `:`, not blank, ASCII -/
def paramChar (c : Char) : Bool := c != ';' && c != ':' && !isSpace c && decide (c.toNat < 128)

theorem plain_param {c : Char} (h : plainChar c = true) : paramChar c = true := by
  obtain ⟨h1, h2, _, _, h5, h6⟩ := plain_ne h
  simp [paramChar, h1, h2, h5, h6]

theorem param_chars (p : Param) : ∀ c ∈ p.render, paramChar c = true := by
  intro c hc
  simp only [Param.render, List.mem_append] at hc
  rcases hc with hc | hc
  · exact plain_param (pname_plain (pname_chars _ c hc))
  · cases hv : p.value with
    | none => simp [hv] at hc
    | some v =>
      simp only [hv, List.mem_cons] at hc
      rcases hc with rfl | hc
      · decide
      · rcases numlit_chars c hc with h | rfl
        · exact plain_param (digit_plain h)
        · decide

theorem paramChar_ne {c : Char} (h : paramChar c = true) : c ≠ ';' ∧ c ≠ ':' ∧ isSpace c = false ∧ c.toNat < 128 := by
  simp only [paramChar, Bool.and_eq_true, bne_iff_ne, ne_eq, Bool.not_eq_true', decide_eq_true_eq] at h
  obtain ⟨⟨⟨h1, h2⟩, h5⟩, h6⟩ := h
  exact ⟨h1, h2, h5, h6⟩

/-! ## one field -/

theorem keyOfName_render (n : PName) : keyOfName (strip n.render) = some n.key := by
  cases n <;> rfl

theorem pname_ne_nil (n : PName) : n.render ≠ [] := by cases n <;> simp [PName.render]

theorem pname_no_eq (n : PName) : '=' ∉ n.render := by cases n <;> decide

theorem parseField_render (acc : Params) (p : Param) :
    parseField acc p.render = if acc.has p.name.key then .error .duplicateKey else .ok (acc ++ [(p.name.key, p.val)]) := by
  have hstrip : strip p.render = p.render := strip_noSpace (fun c hc => (paramChar_ne (param_chars p c hc)).2.2.1)
  have hne : p.render ≠ [] := by simp [Param.render, pname_ne_nil]
  unfold parseField
  simp only [hstrip, hne, if_false]
  cases hv : p.value with
  | none =>
    have hr : p.render = p.name.render := by simp [Param.render, hv]
    rw [hr, partition1_notin (pname_no_eq _)]
    simp only [keyOfName_render, Bool.false_eq_true, false_and, if_false]
    have : strip ([] : Str) = [] := rfl
    simp [this, Param.val, hv]
  | some v =>
    have hr : p.render = p.name.render ++ '=' :: v.render := by simp [Param.render, hv]
    rw [hr, partition1_app _ (pname_no_eq _)]
    simp only [keyOfName_render, numlit_ne_nil, and_false, if_false]
    have hs : strip v.render = v.render := strip_noSpace (fun c hc => by
      rcases numlit_chars c hc with h | rfl
      · exact (plain_ne (digit_plain h)).2.2.2.2.1
      · decide)
    simp [hs, numlit_ne_nil, pyNumber_render, Param.val, hv]

/-! ## the list -/

/-- the dict that the loop builds: parameters in order, a repeated key is an error -/
def foldDict (acc : Params) : List Param → Except Err Params
  | [] => .ok acc
  | p :: ps => if acc.has p.name.key then .error .duplicateKey else foldDict (acc ++ [(p.name.key, p.val)]) ps

theorem parseFields_render (acc : Params) (ps : List Param) :
    parseFields acc (ps.map Param.render) = foldDict acc ps := by
  induction ps generalizing acc with
  | nil => rfl
  | cons p ps ih =>
    simp only [List.map_cons, parseFields, parseField_render, foldDict]
    by_cases h : acc.has p.name.key = true <;> simp [h, ih]

theorem Params.get_append (a b : Params) (k : Key) : Params.get (a ++ b) k = (Params.get a k).orElse (fun _ => Params.get b k) := by
  induction a with
  | nil => simp [Params.get]
  | cons x r ih =>
    obtain ⟨k', v⟩ := x
    simp only [List.cons_append, Params.get]
    split
    · simp
    · exact ih

theorem Params.has_append (a b : Params) (k : Key) : Params.has (a ++ b) k = (Params.has a k || Params.has b k) := by
  simp only [Params.has, Params.get_append]
  cases Params.get a k <;> simp

theorem Params.has_iff_mem_keys (a : Params) (k : Key) : Params.has a k = true ↔ k ∈ a.map (·.1) := by
  induction a with
  | nil => simp [Params.has, Params.get]
  | cons x r ih =>
    obtain ⟨k', v⟩ := x
    simp only [Params.has, Params.get, List.map_cons, List.mem_cons]
    by_cases h : k' = k
    · simp [h]
    · simp only [h, if_false]
      rw [show (Params.get r k).isSome = Params.has r k from rfl, ih]
      constructor
      · exact Or.inr
      · rintro (h' | h')
        · exact absurd h'.symm h
        · exact h'

theorem foldDict_ok (acc : Params) (ps : List Param) (h1 : ∀ p ∈ ps, acc.has p.name.key = false)
    (h2 : (ps.map (fun p => p.name.key)).Nodup) : foldDict acc ps = .ok (acc ++ paramDict ps) := by
  induction ps generalizing acc with
  | nil => simp [foldDict, paramDict]
  | cons p ps ih =>
    simp only [List.map_cons, List.nodup_cons] at h2
    simp only [foldDict, h1 p (by simp), Bool.false_eq_true, if_false]
    rw [ih _ _ h2.2]
    · simp [paramDict]
    · intro q hq
      rw [Params.has_append, h1 q (by simp [hq])]
      simp only [Bool.false_or]
      cases hh : Params.has [(p.name.key, p.val)] q.name.key with
      | false => rfl
      | true =>
        exfalso
        rw [Params.has_iff_mem_keys] at hh
        simp at hh
        exact h2.1 (by rw [← hh]; exact List.mem_map.mpr ⟨q, hq, rfl⟩)

theorem foldDict_err (acc : Params) (ps : List Param)
    (h : ¬ ((∀ p ∈ ps, acc.has p.name.key = false) ∧ (ps.map (fun p => p.name.key)).Nodup)) :
    foldDict acc ps = .error .duplicateKey := by
  induction ps generalizing acc with
  | nil => exact absurd ⟨by simp, by simp⟩ h
  | cons p ps ih =>
    simp only [foldDict]
    by_cases hp : acc.has p.name.key = true
    · simp [hp]
    · simp only [hp, if_false]
      apply ih
      rintro ⟨h1, h2⟩
      apply h
      have hp' : acc.has p.name.key = false := by simpa using hp
      refine ⟨?_, ?_⟩
      · intro q hq
        simp only [List.mem_cons] at hq
        rcases hq with rfl | hq
        · exact hp'
        · have := h1 q hq
          rw [Params.has_append] at this
          simp only [Bool.or_eq_false_iff] at this
          exact this.1
      · simp only [List.map_cons, List.nodup_cons]
        refine ⟨?_, h2⟩
        intro hmem
        obtain ⟨q, hq, hqk⟩ := List.mem_map.mp hmem
        have := h1 q hq
        rw [Params.has_append] at this
        simp only [Bool.or_eq_false_iff] at this
        have h3 := this.2
        rw [← Bool.not_eq_true, Params.has_iff_mem_keys] at h3
        apply h3
        simp [hqk]

/-- the string after the first `;` of a rendered parameter list -/
def paramsTail (ps : List Param) : Str := (renderParams ps).drop 1

theorem param_no_semi (p : Param) : ';' ∉ p.render := fun h => (paramChar_ne (param_chars p _ h)).1 rfl

theorem renderParams_cons (p : Param) (ps : List Param) : renderParams (p :: ps) = ';' :: (p.render ++ renderParams ps) := by
  simp [renderParams]

theorem splitOn1_params (p : Param) (ps : List Param) :
    splitOn1 ';' (p.render ++ renderParams ps) = (p :: ps).map Param.render := by
  induction ps generalizing p with
  | nil => simp [renderParams, splitOn1_notin (param_no_semi p)]
  | cons q qs ih =>
    rw [renderParams_cons, splitOn1_app _ (param_no_semi p), ih q]
    simp

theorem parseFields_tail (ps : List Param) : parseFields [] (splitOn1 ';' (paramsTail ps)) = foldDict [] ps := by
  cases ps with
  | nil => rfl
  | cons p ps =>
    simp only [paramsTail, renderParams_cons, List.drop_succ_cons, List.drop_zero]
    rw [splitOn1_params, parseFields_render]

/-- **Round trip of parameter lists**: a rendered list without repeated keys parses into the written (canonical name, value)
    pairs, to which the `optional`/`noindels` rewriting (`postParams`) is applied; a repeated key is a `KeyError`. -/
theorem parseParams_tail (ps : List Param) :
    parseParams (paramsTail ps) =
      if (ps.map (fun p => p.name.key)).Nodup then postParams (paramDict ps) else .error .duplicateKey := by
  unfold parseParams
  rw [parseFields_tail]
  by_cases h : (ps.map (fun p => p.name.key)).Nodup
  · rw [foldDict_ok [] ps (by intro p _; rfl) h]; simp [h]
  · rw [foldDict_err [] ps (fun hh => h hh.2)]; simp [h]

end Cutadapt.ParserProofs
