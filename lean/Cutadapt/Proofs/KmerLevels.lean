import Cutadapt.Proofs.KmerChunks
/-! The levels of `create_back_overlap_searchsets`: every overlap length `L ≥ min_overlap` is served by a search set whose
    window is wide enough and whose k-mers are more chunks than errors allowed at `L` (C07). -/
namespace Cutadapt.Kmer
open Cutadapt

/-- what is used of `thr L = int(L * error_rate)` for an error rate in `[0, 1)` -/
structure ThrOK (thr : Nat → Nat) : Prop where
  zero : thr 0 = 0
  mono : ∀ x y, x ≤ y → thr x ≤ thr y
  step : ∀ x, thr (x + 1) ≤ thr x + 1
  lt : ∀ L, 1 ≤ L → thr L < L

/-- `es` lists, in order, `(e, len)` such that the lengths `q … len` are exactly those (from `q` on) with `thr = e`,
    and the last one ends at `m` -/
def Levels (thr : Nat → Nat) (m : Nat) : Nat → List (Nat × Nat) → Prop
  | q, [] => q = m + 1
  | q, (e, len) :: rest => q ≤ len ∧ len ≤ m ∧ (∀ L, q ≤ L → L ≤ len → thr L = e) ∧ Levels thr m (len + 1) rest

theorem errorLengthsGo_levels {thr : Nat → Nat} (h : ThrOK thr) (m : Nat) :
    ∀ fuel i me q, i + fuel = m + 1 → (q < i ∨ (i = 0 ∧ me = 0 ∧ q = 0)) →
      (∀ L, q ≤ L → L < i → thr L = me) → Levels thr m q (errorLengthsGo thr m fuel i me) := by
  intro fuel
  induction fuel with
  | zero =>
    intro i me q hi hq hr
    simp only [errorLengthsGo, Levels]
    refine ⟨by omega, Nat.le_refl _, fun L h1 h2 => hr L h1 (by omega), trivial⟩
  | succ fuel ih =>
    intro i me q hi hq hr
    simp only [errorLengthsGo]
    split
    · rename_i hgt
      have hqi : q < i := by
        rcases hq with hq | ⟨h0, hme, _⟩
        · exact hq
        · subst h0; rw [h.zero] at hgt; omega
      have h1 : thr (i - 1) = me := hr (i - 1) (by omega) (by omega)
      have h2 := h.step (i - 1)
      have e1 : i - 1 + 1 = i := by omega
      rw [e1, h1] at h2
      simp only [Levels]
      refine ⟨by omega, by omega, fun L a b => hr L a (by omega), ?_⟩
      rw [e1]
      exact ih (i + 1) (me + 1) i (by omega) (Or.inl (by omega)) (fun L a b => by
        have : L = i := by omega
        subst this; omega)
    · rename_i hle
      refine ih (i + 1) me q (by omega) (Or.inl (by omega)) (fun L a b => ?_)
      by_cases hL : L < i
      · exact hr L a hL
      · have : L = i := by omega
        subst this
        rcases hq with hq | ⟨h0, hme, _⟩
        · have h1 : thr (L - 1) = me := hr (L - 1) (by omega) (by omega)
          have := h.mono (L - 1) L (by omega)
          omega
        · subst h0; rw [h.zero, hme]

theorem errorLengths_levels {thr : Nat → Nat} (h : ThrOK thr) (m : Nat) : Levels thr m 0 (errorLengths thr m) :=
  errorLengthsGo_levels h m (m + 1) 0 0 0 (by omega) (Or.inr ⟨rfl, rfl, rfl⟩) (fun L _ hl => by omega)

/-- search set `S` serves overlap length `L`: its window has room for `L` adapter characters plus the insertions allowed,
    and among its k-mers are more consecutive non-empty chunks of an adapter prefix no longer than `L` than errors are
    allowed at `L` -/
def Serves (ad : Bytes) (thr : Nat → Nat) (indels : Bool) (S : SearchSet) (L : Nat) : Prop :=
  ∃ (cs : List Bytes) (w M : Nat), S.start = -(w : Int) ∧ S.stop = none ∧ (∀ k ∈ cs, k ∈ S.kmers) ∧ (∀ k ∈ cs, k ≠ []) ∧
    cs.flatten = ad.take M ∧ M ≤ L ∧ thr L + 1 ≤ cs.length ∧ L + (if indels then thr L else 0) ≤ w

theorem backSetsGo_serves {thr : Nat → Nat} (h : ThrOK thr) (ad : Bytes) (indels : Bool) (mo : Nat) (hmo : 1 ≤ mo) :
    ∀ es q ml, Levels thr ad.length q es → ml = max mo q →
      ∀ L, mo ≤ L → q ≤ L → L ≤ ad.length → ∃ S ∈ backSetsGo ad indels es ml, Serves ad thr indels S L := by
  intro es
  induction es with
  | nil =>
    intro q ml hlev _ L _ h2 h3
    simp only [Levels] at hlev; omega
  | cons el rest ih =>
    obtain ⟨e, len⟩ := el
    intro q ml hlev hml L hL1 hL2 hL3
    obtain ⟨hq, hlen, hthr, hrest⟩ := hlev
    have hA : mo ≤ ml := by rw [hml]; exact Nat.le_max_left _ _
    have hB : q ≤ ml := by rw [hml]; exact Nat.le_max_right _ _
    have hC : ml ≤ mo ∨ ml ≤ q := by
      rw [hml]; rcases Nat.le_total mo q with hh | hh
      · right; rw [Nat.max_eq_right hh]; exact Nat.le_refl _
      · left; rw [Nat.max_eq_left hh]; exact Nat.le_refl _
    clear hml
    simp only [backSetsGo]
    split
    · rename_i hskip
      have : len < mo := by omega
      exact ih (len + 1) ml hrest (by rw [Nat.max_eq_left (by omega)]; omega) L hL1 (by omega) hL3
    · rename_i hns
      by_cases hLl : L ≤ len
      · have hthrL : thr L = e := hthr L hL2 hLl
        have hmlL : ml ≤ L := by omega
        by_cases hex : (e == 0 && decide (ml < 5)) = true ∧ L < 5
        · -- an exact prefix search
          obtain ⟨hsmall, hL5⟩ := hex
          have he0 : e = 0 := by simp at hsmall; exact hsmall.1
          refine ⟨⟨-(L : Int), none, [ad.take L]⟩, ?_, [ad.take L], L, L, rfl, rfl, by simp, ?_, by simp, Nat.le_refl _,
            by rw [hthrL, he0]; simp, by rw [hthrL, he0]; split <;> omega⟩
          · apply List.mem_append_left
            rw [if_pos hsmall]
            simp only [List.mem_map, List.mem_range'_1]
            exact ⟨L, ⟨hmlL, by omega⟩, rfl⟩
          · intro k hk
            simp only [List.mem_singleton] at hk; subst hk
            intro hnil
            have := congrArg List.length hnil
            rw [List.length_take, List.length_nil] at this; omega
        · -- the chunk search of this level
          have hml1 : (if (e == 0 && decide (ml < 5)) = true then 5 else ml) ≤ L := by
            split
            · rename_i hs
              have : ¬ L < 5 := fun hh => hex ⟨hs, hh⟩
              omega
            · exact hmlL
          have hml1' : ml ≤ (if (e == 0 && decide (ml < 5)) = true then 5 else ml) := by
            split
            · rename_i hs; simp at hs; omega
            · exact Nat.le_refl _
          have he1 : e + 1 ≤ (if (e == 0 && decide (ml < 5)) = true then 5 else ml) := by
            have hqe : thr q = e := hthr q (Nat.le_refl _) hq
            rcases Nat.eq_zero_or_pos q with hq0 | hq0
            · subst hq0; rw [h.zero] at hqe; omega
            · have := h.lt q hq0; omega
          generalize (if (e == 0 && decide (ml < 5)) = true then 5 else ml) = ml1 at hml1 hml1' he1
          have htake : (ad.take ml1).length = ml1 := by simp; omega
          obtain ⟨hflat, hcount, _, hne⟩ := kmerChunksList_spec (ad.take ml1) (e + 1) (by omega) (by omega)
          refine ⟨_, List.mem_append_right _ (List.mem_cons_self), kmerChunksList (ad.take ml1) (e + 1),
            len + (if indels then e else 0), ml1, rfl, rfl, fun k hk => mem_kmerChunks.mpr hk, hne, hflat, hml1,
            by omega, ?_⟩
          rw [hthrL]; omega
      · obtain ⟨S, hS, hserv⟩ := ih (len + 1) (len + 1) hrest (Nat.max_eq_right (by omega)).symm L hL1 (by omega) hL3
        exact ⟨S, List.mem_append_right _ (List.mem_cons_of_mem _ hS), hserv⟩

theorem backSetsGo_stop (ad : Bytes) (indels : Bool) : ∀ es ml, ∀ S ∈ backSetsGo ad indels es ml, S.stop = none := by
  intro es
  induction es with
  | nil => intro ml S hS; simp [backSetsGo] at hS
  | cons el rest ih =>
    obtain ⟨e, len⟩ := el
    intro ml S hS
    simp only [backSetsGo] at hS
    split at hS
    · exact ih ml S hS
    · rcases List.mem_append.mp hS with hS | hS
      · split at hS
        · simp only [List.mem_map] at hS
          obtain ⟨i, _, rfl⟩ := hS; rfl
        · simp at hS
      · rcases List.mem_cons.mp hS with hS | hS
        · subst hS; rfl
        · exact ih _ S hS

theorem backSetsGo_start (ad : Bytes) (indels : Bool) : ∀ es ml, 1 ≤ ml → ∀ S ∈ backSetsGo ad indels es ml, S.start < 0 := by
  intro es
  induction es with
  | nil => intro ml _ S hS; simp [backSetsGo] at hS
  | cons el rest ih =>
    obtain ⟨e, len⟩ := el
    intro ml hml S hS
    simp only [backSetsGo] at hS
    split at hS
    · exact ih ml hml S hS
    · rcases List.mem_append.mp hS with hS | hS
      · split at hS
        · simp only [List.mem_map, List.mem_range'_1] at hS
          obtain ⟨i, ⟨hi, _⟩, rfl⟩ := hS
          simp only; omega
        · simp at hS
      · rcases List.mem_cons.mp hS with hS | hS
        · subst hS; simp only; omega
        · exact ih _ (by omega) S hS

theorem backSetsGo_ne {thr : Nat → Nat} (h : ThrOK thr) (ad : Bytes) (had : 1 ≤ ad.length) (indels : Bool) (mo : Nat)
    (hmo : 1 ≤ mo) :
    ∀ es q ml, Levels thr ad.length q es → ml = max mo q →
      ∀ S ∈ backSetsGo ad indels es ml, ∀ k ∈ S.kmers, k ≠ [] := by
  intro es
  induction es with
  | nil => intro q ml _ _ S hS; simp [backSetsGo] at hS
  | cons el rest ih =>
    obtain ⟨e, len⟩ := el
    intro q ml hlev hml S hS
    obtain ⟨hq, hlen, hthr, hrest⟩ := hlev
    have hA : mo ≤ ml := by rw [hml]; exact Nat.le_max_left _ _
    have hB : q ≤ ml := by rw [hml]; exact Nat.le_max_right _ _
    have hC : ml ≤ mo ∨ ml ≤ q := by
      rw [hml]; rcases Nat.le_total mo q with hh | hh
      · right; rw [Nat.max_eq_right hh]; exact Nat.le_refl _
      · left; rw [Nat.max_eq_left hh]; exact Nat.le_refl _
    clear hml
    simp only [backSetsGo] at hS
    split at hS
    · exact ih (len + 1) ml hrest (by rw [Nat.max_eq_left (by omega)]; omega) S hS
    · rename_i hns
      rcases List.mem_append.mp hS with hS | hS
      · split at hS
        · simp only [List.mem_map, List.mem_range'_1] at hS
          obtain ⟨i, ⟨hi, _⟩, rfl⟩ := hS
          have hml1 : 1 ≤ ml := by omega
          intro k hk
          simp only [List.mem_singleton] at hk; subst hk
          intro hnil
          have := congrArg List.length hnil
          rw [List.length_take, List.length_nil] at this; omega
        · simp at hS
      · rcases List.mem_cons.mp hS with hS | hS
        · subst hS
          intro k hk
          simp only at hk
          have hk' := mem_kmerChunks.mp hk
          have he1 : e + 1 ≤ (ad.take (if (e == 0 && decide (ml < 5)) = true then 5 else ml)).length := by
            simp only [List.length_take]
            split
            · rename_i hs; simp at hs; omega
            · have hqe : thr q = e := hthr q (Nat.le_refl _) hq
              rcases Nat.eq_zero_or_pos q with hq0 | hq0
              · subst hq0; rw [h.zero] at hqe; omega
              · have := h.lt q hq0; omega
          exact (kmerChunksList_spec _ (e + 1) (by omega) he1).2.2.2 k hk'
        · exact ih (len + 1) (len + 1) hrest (Nat.max_eq_right (by omega)).symm S hS

/-! ### `create_back_overlap_searchsets` -/

theorem backSets_serves {thr : Nat → Nat} (h : ThrOK thr) (ad : Bytes) (indels : Bool) (mo : Nat) (hmo : 1 ≤ mo)
    (L : Nat) (h1 : mo ≤ L) (h2 : L ≤ ad.length) :
    ∃ S ∈ createBackOverlapSearchsets ad mo thr indels, Serves ad thr indels S L :=
  backSetsGo_serves h ad indels mo hmo _ 0 mo (errorLengths_levels h ad.length) (by omega) L h1 (by omega) h2

theorem backSets_stop (ad : Bytes) (mo : Nat) (thr : Nat → Nat) (indels : Bool) :
    ∀ S ∈ createBackOverlapSearchsets ad mo thr indels, S.stop = none :=
  backSetsGo_stop ad indels _ mo

theorem backSets_start_neg (ad : Bytes) (mo : Nat) (thr : Nat → Nat) (indels : Bool) (hmo : 1 ≤ mo) :
    ∀ S ∈ createBackOverlapSearchsets ad mo thr indels, S.start < 0 :=
  backSetsGo_start ad indels _ mo hmo

theorem backSets_ne {thr : Nat → Nat} (h : ThrOK thr) (ad : Bytes) (had : 1 ≤ ad.length) (indels : Bool) (mo : Nat)
    (hmo : 1 ≤ mo) : ∀ S ∈ createBackOverlapSearchsets ad mo thr indels, ∀ k ∈ S.kmers, k ≠ [] :=
  backSetsGo_ne h ad had indels mo hmo _ 0 mo (errorLengths_levels h ad.length) (by omega)

end Cutadapt.Kmer
