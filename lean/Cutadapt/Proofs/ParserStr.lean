import Cutadapt.Spec.AdapterNotation
/-! String-level lemmas for the parser model (C18): decimal digits, `partition`, `split`, `strip`, `"..."`, prefixes. -/
namespace Cutadapt.ParserProofs
open Cutadapt.Parser Cutadapt.Notation

/-! ## digits -/

theorem lt_ten_cases {d : Nat} (h : d < 10) :
    d = 0 ∨ d = 1 ∨ d = 2 ∨ d = 3 ∨ d = 4 ∨ d = 5 ∨ d = 6 ∨ d = 7 ∨ d = 8 ∨ d = 9 := by omega

theorem isDigit_digitChar {d : Nat} (h : d < 10) : isDigit (digitChar d) = true := by
  rcases lt_ten_cases h with rfl|rfl|rfl|rfl|rfl|rfl|rfl|rfl|rfl|rfl <;> decide

theorem digitVal_digitChar {d : Nat} (h : d < 10) : digitVal (digitChar d) = d := by
  rcases lt_ten_cases h with rfl|rfl|rfl|rfl|rfl|rfl|rfl|rfl|rfl|rfl <;> decide

theorem natDigitsAux_acc (fuel n : Nat) (acc : Str) : natDigitsAux fuel n acc = natDigitsAux fuel n [] ++ acc := by
  induction fuel generalizing n acc with
  | zero => simp [natDigitsAux]
  | succ f ih =>
    unfold natDigitsAux
    split
    · simp
    · rw [ih (n / 10) (digitChar (n % 10) :: acc), ih (n / 10) [digitChar (n % 10)]]; simp

theorem natDigitsAux_fuel (f1 f2 n : Nat) (acc : Str) (h1 : n < f1) (h2 : n < f2) :
    natDigitsAux f1 n acc = natDigitsAux f2 n acc := by
  induction f1 generalizing f2 n acc with
  | zero => omega
  | succ f ih =>
    cases f2 with
    | zero => omega
    | succ g =>
      unfold natDigitsAux
      split
      · rfl
      · exact ih g (n / 10) _ (by omega) (by omega)

theorem natDigits_lt {n : Nat} (h : n < 10) : natDigits n = [digitChar n] := by
  simp [natDigits, natDigitsAux, h]

theorem natDigits_ge {n : Nat} (h : ¬ n < 10) : natDigits n = natDigits (n / 10) ++ [digitChar (n % 10)] := by
  unfold natDigits
  conv => lhs; unfold natDigitsAux
  simp only [h, if_false]
  rw [natDigitsAux_acc]
  congr 1
  exact natDigitsAux_fuel _ _ _ _ (by omega) (by omega)

theorem natDigits_ne_nil (n : Nat) : natDigits n ≠ [] := by
  by_cases h : n < 10
  · simp [natDigits_lt h]
  · simp [natDigits_ge h]

theorem natDigits_all_digit (n : Nat) : (natDigits n).all isDigit = true := by
  induction n using Nat.strongRecOn with
  | _ n ih =>
    by_cases h : n < 10
    · simp [natDigits_lt h, isDigit_digitChar h]
    · rw [natDigits_ge h]
      simp [ih (n / 10) (by omega), isDigit_digitChar (Nat.mod_lt n (by decide : 10 > 0))]

theorem parseDigits_append (xs ys : Str) :
    parseDigits (xs ++ ys) = ys.foldl (fun a c => a * 10 + digitVal c) (parseDigits xs) := by
  simp [parseDigits, List.foldl_append]

theorem parseDigits_natDigits (n : Nat) : parseDigits (natDigits n) = n := by
  induction n using Nat.strongRecOn with
  | _ n ih =>
    by_cases h : n < 10
    · simp [natDigits_lt h, parseDigits, digitVal_digitChar h]
    · rw [natDigits_ge h, parseDigits_append, ih (n / 10) (by omega)]
      simp [digitVal_digitChar (Nat.mod_lt n (by decide : 10 > 0))]
      omega

theorem fracChars_all_digit (frac : List (Fin 10)) : (fracChars frac).all isDigit = true := by
  induction frac with
  | nil => rfl
  | cons d r ih => simp [fracChars, isDigit_digitChar d.isLt] at ih ⊢; exact ih

theorem foldl_fin (r : List (Fin 10)) (b : Nat) :
    r.foldl (fun a (d : Fin 10) => a * 10 + d.val) b = b * 10 ^ r.length + r.foldl (fun a (d : Fin 10) => a * 10 + d.val) 0 := by
  induction r generalizing b with
  | nil => simp
  | cons x r ih =>
    simp only [List.foldl_cons, List.length_cons]
    rw [ih (b * 10 + x.val), ih (0 * 10 + x.val)]
    simp [Nat.pow_succ, Nat.add_mul, Nat.mul_assoc, Nat.add_assoc]
    rw [Nat.mul_comm 10]

theorem foldl_fracChars (frac : List (Fin 10)) (a : Nat) :
    (fracChars frac).foldl (fun a c => a * 10 + digitVal c) a = a * 10 ^ frac.length + fracVal frac := by
  unfold fracVal
  rw [← foldl_fin]
  induction frac generalizing a with
  | nil => rfl
  | cons d r ih =>
    simp only [fracChars, List.map_cons, List.foldl_cons] at ih ⊢
    rw [digitVal_digitChar d.isLt, ih]

/-! ## `partition`, `split` on one character -/

theorem partition1_notin {c : Char} {s : Str} (h : c ∉ s) : partition1 c s = (s, false, []) := by
  induction s with
  | nil => rfl
  | cons x r ih =>
    have hx : x ≠ c := fun e => h (by simp [e])
    have hr : c ∉ r := fun e => h (by simp [e])
    simp [partition1, hx, ih hr]

theorem partition1_app {c : Char} {a : Str} (b : Str) (h : c ∉ a) : partition1 c (a ++ c :: b) = (a, true, b) := by
  induction a with
  | nil => simp [partition1]
  | cons x r ih =>
    have hx : x ≠ c := fun e => h (by simp [e])
    have hr : c ∉ r := fun e => h (by simp [e])
    simp [partition1, hx, ih hr]

theorem splitOn1_notin {c : Char} {s : Str} (h : c ∉ s) : splitOn1 c s = [s] := by
  induction s with
  | nil => rfl
  | cons x r ih =>
    have hx : x ≠ c := fun e => h (by simp [e])
    have hr : c ∉ r := fun e => h (by simp [e])
    simp [splitOn1, hx, ih hr]

theorem splitOn1_app {c : Char} {a : Str} (b : Str) (h : c ∉ a) : splitOn1 c (a ++ c :: b) = a :: splitOn1 c b := by
  induction a with
  | nil => simp [splitOn1]
  | cons x r ih =>
    have hx : x ≠ c := fun e => h (by simp [e])
    have hr : c ∉ r := fun e => h (by simp [e])
    simp [splitOn1, hx, ih hr]

/-! ## `strip` -/

theorem dropWhile_none {p : Char → Bool} {s : Str} (h : ∀ c ∈ s, p c = false) : s.dropWhile p = s := by
  cases s with
  | nil => rfl
  | cons x r => simp [List.dropWhile, h x (by simp)]

theorem strip_noSpace {s : Str} (h : ∀ c ∈ s, isSpace c = false) : strip s = s := by
  unfold strip rstrip lstrip
  rw [dropWhile_none h, dropWhile_none (by intro c hc; exact h c (by simpa using hc))]
  simp

/-! ## `partition("...")` -/

/-- every dot is followed by a character that is not a dot -/
def DotSafe : Str → Prop
  | [] => True
  | c :: r => (c = '.' → ∃ d r', r = d :: r' ∧ d ≠ '.') ∧ DotSafe r

theorem DotSafe_append {a b : Str} (ha : DotSafe a) (hb : DotSafe b) : DotSafe (a ++ b) := by
  induction a with
  | nil => simpa using hb
  | cons x r ih =>
    obtain ⟨h1, h2⟩ := ha
    refine ⟨?_, ih h2⟩
    intro hx
    obtain ⟨d, r', hr, hd⟩ := h1 hx
    exact ⟨d, r' ++ b, by simp [hr], hd⟩

theorem DotSafe_of_nodot {s : Str} (h : '.' ∉ s) : DotSafe s := by
  induction s with
  | nil => trivial
  | cons x r ih =>
    refine ⟨fun hx => absurd (by simp [hx]) h, ih (fun e => h (by simp [e]))⟩

theorem partDots_cons_ne {x : Char} (r : Str) (hx : x ≠ '.') :
    partDots (x :: r) = (x :: (partDots r).1, (partDots r).2.1, (partDots r).2.2) := by
  rw [partDots]
  intro r' h1 _; exact hx h1

theorem partDots_dot_ne {d : Char} (r : Str) (hd : d ≠ '.') :
    partDots ('.' :: d :: r) = ('.' :: (partDots (d :: r)).1, (partDots (d :: r)).2.1, (partDots (d :: r)).2.2) := by
  rw [partDots]
  intro r' _ h2; simp at h2; exact hd h2.1

theorem partDots_safe {s : Str} (h : DotSafe s) : partDots s = (s, false, []) := by
  induction s with
  | nil => rfl
  | cons x r ih =>
    obtain ⟨h1, h2⟩ := h
    by_cases hx : x = '.'
    · subst hx
      obtain ⟨d, r', hr, hd⟩ := h1 rfl
      subst hr
      rw [partDots_dot_ne _ hd, ih h2]
    · rw [partDots_cons_ne _ hx, ih h2]

theorem partDots_app {a : Str} (b : Str) (h : DotSafe a) : partDots (a ++ '.' :: '.' :: '.' :: b) = (a, true, b) := by
  induction a with
  | nil => simp [partDots]
  | cons x r ih =>
    obtain ⟨h1, h2⟩ := h
    by_cases hx : x = '.'
    · subst hx
      obtain ⟨d, r', hr, hd⟩ := h1 rfl
      subst hr
      have := ih h2
      simp only [List.cons_append] at this ⊢
      rw [partDots_dot_ne _ hd, this]
    · simp only [List.cons_append]
      rw [partDots_cons_ne _ hx, ih h2]

/-! ## prefixes -/

theorem startsWith_of_notin {s pre : Str} {c : Char} (hc : c ∈ pre) (h : c ∉ s) : startsWith s pre = false := by
  unfold startsWith
  cases hp : pre.isPrefixOf s with
  | false => rfl
  | true =>
    exfalso
    rw [List.isPrefixOf_iff_prefix] at hp
    obtain ⟨t, rfl⟩ := hp
    exact h (by simp [hc])

end Cutadapt.ParserProofs
