import Cutadapt.Adapters
/-! Model of the k-mer presence prefilter: `src/cutadapt/kmer_heuristic.py` (all but `kmer_probability_analysis`),
    `src/cutadapt/_kmer_finder.pyx` (all), `_match_tables.matches_lookup`, and `_make_kmer_finder` / `_kmer_finder()` of the
    adapter classes in `adapters.py`. Core Lean only.

    * Python `set`/`dict` iteration order over strings changes from run to run (hash randomisation), so the tables are
      defined up to a canonical order: entries sorted by `(start, stop)` (`None` first), k-mers sorted bytewise, no
      duplicates. `kmers_present` is a disjunction over entries and over the words of an entry, hence independent of
      that order.
    * `int(i * error_rate)` is supplied as `thr : Nat → Nat` (see `Adapters.Adapter.thr`).
    * Until commit d940092 `kmers_present` did not clamp a positive `stop` to the read length; the bytes it then read behind
      the read are the extra argument `beyond` of `kmersPresent` (padded with zeros). The argument is kept so that
      "the verdict does not depend on memory behind the read" is a theorem (`C07.kmers_present_ignores_beyond`).
      Bytes ≥ 128 get the empty mask (reads are ASCII). -/
namespace Cutadapt.Kmer
open Cutadapt Cutadapt.Align Cutadapt.Generated Cutadapt.Adapters

/-! ## canonical finite sets as sorted duplicate-free lists -/

def insertUniq (lt : α → α → Bool) (x : α) : List α → List α
  | [] => [x]
  | y :: ys => if lt x y then x :: y :: ys else if lt y x then y :: insertUniq lt x ys else y :: ys

def sortUniq (lt : α → α → Bool) (l : List α) : List α := l.foldr (insertUniq lt) []

/-- bytewise lexicographic order (= Python's order on ASCII `str`) -/
def bytesLt : Bytes → Bytes → Bool
  | [], [] => false
  | [], _ :: _ => true
  | _ :: _, [] => false
  | a :: as, b :: bs => a < b || (a == b && bytesLt as bs)

/-- a search position `(start, stop)`; `stop = none` is Python's `None` -/
abbrev Pos := Int × Option Int

/-- order on positions: by `start`, then `None` before any number, then by `stop` -/
def posLt (p q : Pos) : Bool :=
  p.1 < q.1 || (p.1 == q.1 &&
    match p.2, q.2 with
    | none, none => false
    | none, some _ => true
    | some _, none => false
    | some a, some b => a < b)

/-! ## `kmer_chunks` -/

/-- `remainder * [chunk_size + 1] + (chunks - remainder) * [chunk_size]` -/
def chunkSizes (n c : Nat) : List Nat :=
  List.replicate (n % c) (n / c + 1) ++ List.replicate (c - n % c) (n / c)

def splitSizes : List Nat → Bytes → List Bytes
  | [], _ => []
  | k :: ks, s => s.take k :: splitSizes ks (s.drop k)

/-- the chunks in sequence order, before they are put into a set -/
def kmerChunksList (s : Bytes) (c : Nat) : List Bytes := splitSizes (chunkSizes s.length c) s

/-- `kmer_chunks(sequence, chunks)` as a canonical set -/
def kmerChunks (s : Bytes) (c : Nat) : List Bytes := sortUniq bytesLt (kmerChunksList s c)

/-! ## search sets -/

/-- `SearchSet = Tuple[int, Optional[int], Set[str]]` -/
structure SearchSet where
  start : Int
  stop : Option Int
  kmers : List Bytes
deriving Repr, BEq, DecidableEq

/-- first loop of `create_back_overlap_searchsets` from index `i` on, with `max_error = me`:
    `(max_errors, largest length with that many errors)`, in the order in which the code appends them -/
def errorLengthsGo (thr : Nat → Nat) (m : Nat) : Nat → Nat → Nat → List (Nat × Nat)
  | 0, _, me => [(me, m)]                      -- `error_lengths.append((max_error, adapter_length))`
  | fuel + 1, i, me =>
    if thr i > me then (me, i - 1) :: errorLengthsGo thr m fuel (i + 1) (me + 1)
    else errorLengthsGo thr m fuel (i + 1) me

/-- `for i in range(adapter_length + 1): if int(i * error_rate) > max_error: …` -/
def errorLengths (thr : Nat → Nat) (m : Nat) : List (Nat × Nat) := errorLengthsGo thr m (m + 1) 0 0

/-- second loop of `create_back_overlap_searchsets` with `minimum_length = ml`; `indels` widens every window by the number of
    errors allowed at that level (`slack = max_errors if indels else 0`) -/
def backSetsGo (adapter : Bytes) (indels : Bool) : List (Nat × Nat) → Nat → List SearchSet
  | [], _ => []
  | (maxErrors, length) :: rest, ml =>
    if ml > length then backSetsGo adapter indels rest ml else
    let small := maxErrors == 0 && ml < 5
    let exact : List SearchSet :=
      if small then (List.range' ml (5 - ml)).map (fun (i : Nat) => ⟨-(i : Int), none, [adapter.take i]⟩) else []
    let ml1 := if small then 5 else ml
    let slack := if indels then maxErrors else 0
    exact ++ ⟨-((length + slack : Nat) : Int), none, kmerChunks (adapter.take ml1) (maxErrors + 1)⟩ ::
      backSetsGo adapter indels rest (length + 1)

/-- `create_back_overlap_searchsets(adapter, min_overlap, error_rate, indels)` -/
def createBackOverlapSearchsets (adapter : Bytes) (minOverlap : Nat) (thr : Nat → Nat) (indels : Bool) : List SearchSet :=
  backSetsGo adapter indels (errorLengths thr adapter.length) minOverlap

/-! ## `minimize_kmer_search_list`, `remove_redundant_kmers` -/

inductive KmerErr where
  | notImplemented   -- "Situations with searches starting in the middle have not been considered."
deriving Repr, BEq, DecidableEq

def maxInt (l : List Int) (d : Int) : Int := l.foldl max d
def minInt (l : List Int) (d : Int) : Int := l.foldl min d

/-- what `minimize_kmer_search_list` keeps for one k-mer that is searched at `positions` -/
def minimizeOne (positions : List Pos) : Except KmerErr (List Pos) :=
  match positions with
  | [p] => .ok [p]
  | _ =>
    if positions.contains (0, none) then .ok [(0, none)] else
    let front := positions.filter (fun p => p.1 == 0)
    let back := positions.filter (fun p => p.2.isNone)
    let middle := positions.filter (fun p => p.1 != 0 && p.2.isSome)
    if !middle.isEmpty then .error .notImplemented else
    let frontStops := front.filterMap (·.2)
    let f : List Pos := match frontStops with
      | [] => []
      | s :: ss => [(0, some (maxInt ss s))]
    let b : List Pos := match back.map (·.1) with
      | [] => []
      | s :: ss => [(minInt ss s, none)]
    .ok (f ++ b)

/-- map with the first error winning (the Python loop raises at the first k-mer with a middle search) -/
def mapE (f : α → Except ε β) : List α → Except ε (List β)
  | [] => .ok []
  | x :: xs =>
    match f x with
    | .error e => .error e
    | .ok y =>
      match mapE f xs with
      | .error e => .error e
      | .ok ys => .ok (y :: ys)

/-- the `(kmer, start, stop)` triples kept for k-mer `k` -/
def minimizeFor (l : List (Bytes × Pos)) (k : Bytes) : Except KmerErr (List (Bytes × Pos)) :=
  match minimizeOne ((l.filter (·.1 == k)).map (·.2)) with
  | .error e => .error e
  | .ok ps => .ok (ps.map (fun p => (k, p)))

/-- `minimize_kmer_search_list` on a list of `(kmer, start, stop)`; result sorted by k-mer -/
def minimizeKmerSearchList (l : List (Bytes × Pos)) : Except KmerErr (List (Bytes × Pos)) :=
  match mapE (minimizeFor l) (sortUniq bytesLt (l.map (·.1))) with
  | .error e => .error e
  | .ok ls => .ok ls.flatten

/-- one element of `positions_and_kmers` -/
structure Entry where
  start : Int
  stop : Option Int
  kmers : List Bytes
deriving Repr, BEq, DecidableEq

/-- `remove_redundant_kmers(search_sets)`, entries sorted by position, k-mers sorted -/
def removeRedundantKmers (sets : List SearchSet) : Except KmerErr (List Entry) :=
  let triples : List (Bytes × Pos) := sets.flatMap (fun s => s.kmers.map (fun k => (k, (s.start, s.stop))))
  match minimizeKmerSearchList triples with
  | .error e => .error e
  | .ok minimized =>
    let keys := sortUniq posLt (minimized.map (·.2))
    .ok (keys.map fun key => ⟨key.1, key.2, (minimized.filter (·.2 == key)).map (·.1)⟩)

/-- `create_positions_and_kmers(adapter, min_overlap, error_rate, back_adapter, front_adapter, internal, indels)` -/
def searchSets (adapter : Bytes) (minOverlap : Nat) (thr : Nat → Nat) (back front internal indels : Bool) :
    List SearchSet :=
  (if back then createBackOverlapSearchsets adapter minOverlap thr indels else []) ++
  (if front then
    (createBackOverlapSearchsets adapter.reverse minOverlap thr indels).map
      (fun s => ⟨0, some (-s.start), s.kmers.map List.reverse⟩)
   else []) ++
  (if internal then [⟨0, none, kmerChunks adapter (thr adapter.length + 1)⟩] else [])

def createPositionsAndKmers (adapter : Bytes) (minOverlap : Nat) (thr : Nat → Nat) (back front internal indels : Bool) :
    Except KmerErr (List Entry) :=
  removeRedundantKmers (searchSets adapter minOverlap thr back front internal indels)

/-! ## `matches_lookup` -/

def refTable (wr wq : Bool) : Array UInt8 := if wr then iupacTable else if wq then acgtTable else upperTable
def queryTable (wr wq : Bool) : Array UInt8 := if wq then iupacTable else if wr then acgtTable else upperTable

/-- `chr(c) in matches_lookup(ref_wildcards, query_wildcards)[w]`, together with the `c == 0: continue` of
    `populate_needle_mask`: k-mer character `w` accepts read character `c`. -/
def kmerMatches (wr wq : Bool) (w c : UInt8) : Bool :=
  w != 0 && c != 0 && c < 128 &&
    (let a := tr (refTable wr wq) w
     let b := tr (queryTable wr wq) c
     if !wr && !wq then a == b else (a &&& b) != 0)

/-! ## `KmerFinder.__cinit__` -/

def bitAt (pos : Nat) : UInt64 := (1 : UInt64) <<< pos.toUInt64

/-- `needle_mask[c]` of a packed word that starts at bit `pos` -/
def maskFrom (m : UInt8 → UInt8 → Bool) : Bytes → Nat → UInt8 → UInt64
  | [], _, _ => 0
  | w :: ws, pos, c => (if m w c then bitAt pos else 0) ||| maskFrom m ws (pos + 1) c

def initMaskFrom : List Bytes → Nat → UInt64
  | [], _ => 0
  | w :: ws, off => bitAt off ||| initMaskFrom ws (off + w.length)

def foundMaskFrom : List Bytes → Nat → UInt64
  | [], _ => 0
  | w :: ws, off => bitAt (off + w.length - 1) ||| foundMaskFrom ws (off + w.length)

/-- greedy packing of the k-mers of one entry into masks of at most 64 positions (every k-mer is at most 64 long) -/
def packGo : List Bytes → Nat → List Bytes → List (List Bytes)
  | [], _, cur => if cur.isEmpty then [] else [cur.reverse]
  | k :: ks, off, cur =>
    if off + k.length ≤ 64 then packGo ks (off + k.length) (k :: cur)
    else cur.reverse :: packGo ks k.length [k]

def packWords (kmers : List Bytes) : List (List Bytes) := packGo kmers 0 []

/-- one `KmerSearchEntry` with its mask table: `words` are the k-mers packed into it, in order -/
structure MaskEntry where
  start : Int
  stop : Int               -- 0 = to the end of the sequence
  words : List Bytes
deriving Repr, BEq, DecidableEq

def MaskEntry.needle (e : MaskEntry) : Bytes := e.words.flatten
def MaskEntry.initMask (e : MaskEntry) : UInt64 := initMaskFrom e.words 0
def MaskEntry.foundMask (e : MaskEntry) : UInt64 := foundMaskFrom e.words 0

inductive Finder where
  | mock                                     -- `MockKmerFinder`
  | masks (wr wq : Bool) (entries : List MaskEntry)
deriving Repr

/-- `KmerFinder(positions_and_kmers, ref_wildcards, query_wildcards)`; `none` = `ValueError`
    (a k-mer longer than 64 or not ASCII) -/
def mkFinder (entries : List Entry) : Option (List MaskEntry) :=
  if entries.any (fun e => e.kmers.any (fun k => k.length > 64 || k.any (· ≥ 128))) then none
  else some (entries.flatMap fun e => (packWords e.kmers).map fun ws => ⟨e.start, e.stop.getD 0, ws⟩)

/-! ## `kmers_present` -/

/-- `shift_and_multiple_is_present(haystack, …)` started with register `R` -/
def shiftAnd (mask : UInt8 → UInt64) (init found : UInt64) : Bytes → UInt64 → Bool
  | [], _ => false
  | c :: cs, R =>
    let R' := ((R <<< 1) ||| init) &&& mask c
    if R' &&& found != 0 then true else shiftAnd mask init found cs R'

/-- window arithmetic of `kmers_present` for a sequence of length `n`: `(start, search_length)`, `none` = `continue` -/
def windowOf (start stop : Int) (n : Nat) : Option (Nat × Nat) :=
  let n' : Int := n
  let start? : Option Int :=
    if start < 0 then some (if n' + start < 0 then 0 else n' + start)
    else if start > n' then none else some start
  match start? with
  | none => none
  | some st =>
    let stop? : Option Int :=
      if stop < 0 then (if n' + stop ≤ 0 then none else some (n' + stop))
      else if stop == 0 || stop > n' then some n' else some stop     -- `stop == 0 or stop > seq_length`
    match stop? with
    | none => none
    | some sp => if sp - st ≤ 0 then none else some (st.toNat, (sp - st).toNat)

/-- `len` bytes of memory from offset `st` of the buffer; zeros where the model knows nothing -/
def haystack (buf : Bytes) (st len : Nat) : Bytes :=
  let w := (buf.drop st).take len
  w ++ List.replicate (len - w.length) 0

def entryMask (wr wq : Bool) (e : MaskEntry) (c : UInt8) : UInt64 :=
  if c < 128 then maskFrom (kmerMatches wr wq) e.needle 0 c else 0

def entryPresent (wr wq : Bool) (e : MaskEntry) (read beyond : Bytes) : Bool :=
  match windowOf e.start e.stop read.length with
  | none => false
  | some (st, len) =>
    shiftAnd (entryMask wr wq e) e.initMask e.foundMask (haystack (read ++ beyond) st len) 0

/-- `kmer_finder.kmers_present(read)` when the memory behind the read holds `beyond` -/
def kmersPresent (f : Finder) (read beyond : Bytes) : Bool :=
  match f with
  | .mock => true
  | .masks wr wq entries => entries.any (fun e => entryPresent wr wq e read beyond)

/-! ## wiring: `_kmer_finder()` of each adapter class -/

/-- `(sequence, back_adapter, front_adapter, internal)` handed to `_make_kmer_finder`; `none` = the class returns
    `MockKmerFinder()` itself (anchored adapters without indels use a comparer) -/
def finderArgs (a : Adapter) : Option (Bytes × Bool × Bool × Bool) :=
  match a.ty with
  | .front => some (a.seq, a.forceAnywhere, true, true)
  | .rightmostFront => some (a.seq.reverse, true, a.forceAnywhere, true)
  | .back => some (a.seq, true, a.forceAnywhere, true)
  | .anywhere => some (a.seq, true, true, true)
  | .nonInternalFront => some (a.seq, a.forceAnywhere, true, false)
  | .nonInternalBack => some (a.seq, true, a.forceAnywhere, false)
  | .prefix => if !a.indels then none else some (a.seq, a.forceAnywhere, true, false)
  | .suffix => if !a.indels then none else some (a.seq, true, a.forceAnywhere, false)

/-- `positions_and_kmers` of the adapter's finder (`none` for the class-level mock finder) -/
def positionsFor (a : Adapter) : Option (Except KmerErr (List Entry)) :=
  (finderArgs a).map fun (s, b, f, i) => createPositionsAndKmers s a.minOverlap a.thr b f i a.indels

/-- `_make_kmer_finder(sequence, back_adapter, front_adapter, internal)` -/
def makeKmerFinder (a : Adapter) (s : Bytes) (b f i : Bool) : Finder :=
  match createPositionsAndKmers s a.minOverlap a.thr b f i a.indels with
  | .error _ => .mock   -- not reachable: `create_positions_and_kmers` never produces a middle search
  | .ok entries =>
    match mkFinder entries with
    | none => .mock            -- `except ValueError: return MockKmerFinder()`
    | some ms => .masks a.adapterWildcards a.readWildcards ms

/-- `self.kmer_finder` -/
def finderFor (a : Adapter) : Finder :=
  match finderArgs a with
  | none => .mock
  | some (s, b, f, i) => makeKmerFinder a s b f i

/-- does the adapter's finder use both overlap directions (`AnywhereAdapter`, `;anywhere`)? -/
def bothDirections (a : Adapter) : Bool :=
  match finderArgs a with
  | some (_, b, f, _) => b && f
  | none => false

/-- `ShortReadsPassKmerFinder` (`_make_kmer_finder` wraps the finder in it when `back_adapter and front_adapter`): reads shorter than
    `len(sequence) + int(max_error_rate * len(sequence))` are not shown to the `KmerFinder` at all — they can align to an inner
    part of the adapter, which no k-mer set covers. (When the finder is the mock finder the wrapper is not used, but the mock
    finder says yes anyway.) -/
def shortReadPasses (a : Adapter) (read : Bytes) : Bool :=
  bothDirections a && decide (read.length < a.seq.length + a.thr a.seq.length)

/-- The domain on which the `KmerFinder` itself is proved never to reject a read that the aligner matches: the read is
    ASCII without NUL bytes, and it is not the case that the adapter searches in both overlap directions while the read
    is shorter than the adapter plus its allowed errors (then the read can lie strictly inside the adapter; such reads
    bypass the finder, see `shortReadPasses`). -/
def safeDomain (a : Adapter) (read : Bytes) : Bool :=
  read.all (fun c => c != 0 && c < 128) && !shortReadPasses a read

/-- the domain of `C07.prefilter_safe_partial`: ASCII without NUL bytes -/
def asciiNoNul (read : Bytes) : Bool := read.all (fun c => c != 0 && c < 128)

/-- the sequence `kmers_present` is called with (`RightmostFrontAdapter` reverses the read) -/
def finderInput (a : Adapter) (read : Bytes) : Bytes :=
  match a.ty with
  | .rightmostFront => read.reverse
  | _ => read

/-- `match_to` with the prefilter, as the code has it -/
def matchToFiltered (a : Adapter) (read beyond : Bytes) : Option SingleMatch :=
  if shortReadPasses a read || kmersPresent (finderFor a) (finderInput a read) beyond then matchTo a read else none

end Cutadapt.Kmer
