import Cutadapt.Adapters
/-! Model of the k-mer presence prefilter: `src/cutadapt/kmer_heuristic.py` (all but `kmer_probability_analysis`),
    `src/cutadapt/_kmer_finder.pyx` (all), `_match_tables.matches_lookup`, and `_make_kmer_finder` / `_kmer_finder()` of the
    adapter classes in `adapters.py`. Core Lean only.

    * Python `set`/`dict` iteration order over strings changes from run to run (hash randomisation), so the tables are
      defined up to a canonical order: entries sorted by `(start, stop)` (`None` first), k-mers sorted bytewise, no
      duplicates. `kmers_present` is a disjunction over entries and over the words of an entry, hence independent of
      that order.
    * `int(i * error_rate)` is supplied as `thr : Nat → Nat` (see `Adapters.Adapter.thr`).
    * `kmers_present` does not clamp a positive `stop` to the read length; the bytes it then reads behind the read are the
      extra argument `beyond` (padded with zeros if still too short). Bytes ≥ 128 (possible only in `beyond`) index
      behind the 128-entry mask table in the C code; the model gives them the empty mask. -/
namespace Cutadapt.Kmer
open Cutadapt Cutadapt.Align Cutadapt.Generated Cutadapt.Adapters

/-! ## canonical finite sets as sorted duplicate-free lists -/

def insertUniq (lt : α → α → Bool) (x : α) : List α → List α
  | [] => [x]
  | y :: ys => if lt x y then x :: y :: ys else if lt y x then y :: insertUniq lt x ys else y :: ys

def sortUniq (lt : α → α → Bool) (l : List α) : List α := l.foldr (insertUniq lt) []

/-- bytewise lexicographic order (= Python's order on ASCII `str`) -/
def bytesLt : Bytes → Bytes → Bool
  | [], [] => false
  | [], _ :: _ => true
  | _ :: _, [] => false
  | a :: as, b :: bs => a < b || (a == b && bytesLt as bs)

/-- a search position `(start, stop)`; `stop = none` is Python's `None` -/
abbrev Pos := Int × Option Int

/-- order on positions: by `start`, then `None` before any number, then by `stop` -/
def posLt (p q : Pos) : Bool :=
  p.1 < q.1 || (p.1 == q.1 &&
    match p.2, q.2 with
    | none, none => false
    | none, some _ => true
    | some _, none => false
    | some a, some b => a < b)

/-! ## `kmer_chunks` -/

/-- `remainder * [chunk_size + 1] + (chunks - remainder) * [chunk_size]` -/
def chunkSizes (n c : Nat) : List Nat :=
  List.replicate (n % c) (n / c + 1) ++ List.replicate (c - n % c) (n / c)

def splitSizes : List Nat → Bytes → List Bytes
  | [], _ => []
  | k :: ks, s => s.take k :: splitSizes ks (s.drop k)

/-- the chunks in sequence order, before they are put into a set -/
def kmerChunksList (s : Bytes) (c : Nat) : List Bytes := splitSizes (chunkSizes s.length c) s

/-- `kmer_chunks(sequence, chunks)` as a canonical set -/
def kmerChunks (s : Bytes) (c : Nat) : List Bytes := sortUniq bytesLt (kmerChunksList s c)

/-! ## search sets -/

/-- `SearchSet = Tuple[int, Optional[int], Set[str]]` -/
structure SearchSet where
  start : Int
  stop : Option Int
  kmers : List Bytes
deriving Repr, BEq, DecidableEq

/-- first loop of `create_back_overlap_searchsets`: `(max_errors, largest length with that many errors)` -/
def errorLengths (thr : Nat → Nat) (m : Nat) : List (Nat × Nat) :=
  let r := (List.range (m + 1)).foldl
    (fun (st : Nat × List (Nat × Nat)) i => if thr i > st.1 then (st.1 + 1, st.2 ++ [(st.1, i - 1)]) else st) (0, [])
  r.2 ++ [(r.1, m)]

/-- body of the second loop; state = `(minimum_length, search_sets)` -/
def backStep (adapter : Bytes) (st : Nat × List SearchSet) (el : Nat × Nat) : Nat × List SearchSet :=
  let maxErrors := el.1
  let length := el.2
  if st.1 > length then st else
  let st1 : Nat × List SearchSet :=
    if maxErrors == 0 && st.1 < 5 then
      (5, st.2 ++ (List.range' st.1 (5 - st.1)).map (fun i => ⟨-(i : Int), none, [adapter.take i]⟩))
    else st
  (length + 1, st1.2 ++ [⟨-(length : Int), none, kmerChunks (adapter.take st1.1) (maxErrors + 1)⟩])

/-- `create_back_overlap_searchsets(adapter, min_overlap, error_rate)` -/
def createBackOverlapSearchsets (adapter : Bytes) (minOverlap : Nat) (thr : Nat → Nat) : List SearchSet :=
  ((errorLengths thr adapter.length).foldl (backStep adapter) (minOverlap, [])).2

/-! ## `minimize_kmer_search_list`, `remove_redundant_kmers` -/

inductive KmerErr where
  | notImplemented   -- "Situations with searches starting in the middle have not been considered."
deriving Repr, BEq, DecidableEq

def maxInt (l : List Int) (d : Int) : Int := l.foldl max d
def minInt (l : List Int) (d : Int) : Int := l.foldl min d

/-- what `minimize_kmer_search_list` keeps for one k-mer that is searched at `positions` -/
def minimizeOne (positions : List Pos) : Except KmerErr (List Pos) :=
  match positions with
  | [p] => .ok [p]
  | _ =>
    if positions.contains (0, none) then .ok [(0, none)] else
    let front := positions.filter (fun p => p.1 == 0)
    let back := positions.filter (fun p => p.2.isNone)
    let middle := positions.filter (fun p => p.1 != 0 && p.2.isSome)
    if !middle.isEmpty then .error .notImplemented else
    let frontStops := front.filterMap (·.2)
    let f : List Pos := match frontStops with
      | [] => []
      | s :: ss => [(0, some (maxInt ss s))]
    let b : List Pos := match back.map (·.1) with
      | [] => []
      | s :: ss => [(minInt ss s, none)]
    .ok (f ++ b)

/-- map with the first error winning (the Python loop raises at the first k-mer with a middle search) -/
def mapE (f : α → Except ε β) : List α → Except ε (List β)
  | [] => .ok []
  | x :: xs =>
    match f x with
    | .error e => .error e
    | .ok y =>
      match mapE f xs with
      | .error e => .error e
      | .ok ys => .ok (y :: ys)

/-- the `(kmer, start, stop)` triples kept for k-mer `k` -/
def minimizeFor (l : List (Bytes × Pos)) (k : Bytes) : Except KmerErr (List (Bytes × Pos)) :=
  match minimizeOne ((l.filter (·.1 == k)).map (·.2)) with
  | .error e => .error e
  | .ok ps => .ok (ps.map (fun p => (k, p)))

/-- `minimize_kmer_search_list` on a list of `(kmer, start, stop)`; result sorted by k-mer -/
def minimizeKmerSearchList (l : List (Bytes × Pos)) : Except KmerErr (List (Bytes × Pos)) :=
  match mapE (minimizeFor l) (sortUniq bytesLt (l.map (·.1))) with
  | .error e => .error e
  | .ok ls => .ok ls.flatten

/-- one element of `positions_and_kmers` -/
structure Entry where
  start : Int
  stop : Option Int
  kmers : List Bytes
deriving Repr, BEq, DecidableEq

/-- `remove_redundant_kmers(search_sets)`, entries sorted by position, k-mers sorted -/
def removeRedundantKmers (sets : List SearchSet) : Except KmerErr (List Entry) :=
  let triples : List (Bytes × Pos) := sets.flatMap (fun s => s.kmers.map (fun k => (k, (s.start, s.stop))))
  match minimizeKmerSearchList triples with
  | .error e => .error e
  | .ok minimized =>
    let keys := sortUniq posLt (minimized.map (·.2))
    .ok (keys.map fun key => ⟨key.1, key.2, (minimized.filter (·.2 == key)).map (·.1)⟩)

/-- `create_positions_and_kmers(adapter, min_overlap, error_rate, back_adapter, front_adapter, internal)` -/
def searchSets (adapter : Bytes) (minOverlap : Nat) (thr : Nat → Nat) (back front internal : Bool) : List SearchSet :=
  (if back then createBackOverlapSearchsets adapter minOverlap thr else []) ++
  (if front then
    (createBackOverlapSearchsets adapter.reverse minOverlap thr).map
      (fun s => ⟨0, some (-s.start), s.kmers.map List.reverse⟩)
   else []) ++
  (if internal then [⟨0, none, kmerChunks adapter (thr adapter.length + 1)⟩] else [])

def createPositionsAndKmers (adapter : Bytes) (minOverlap : Nat) (thr : Nat → Nat) (back front internal : Bool) :
    Except KmerErr (List Entry) :=
  removeRedundantKmers (searchSets adapter minOverlap thr back front internal)

/-! ## `matches_lookup` -/

def refTable (wr wq : Bool) : Array UInt8 := if wr then iupacTable else if wq then acgtTable else upperTable
def queryTable (wr wq : Bool) : Array UInt8 := if wq then iupacTable else if wr then acgtTable else upperTable

/-- `chr(c) in matches_lookup(ref_wildcards, query_wildcards)[w]`, together with the `c == 0: continue` of
    `populate_needle_mask`: k-mer character `w` accepts read character `c`. -/
def kmerMatches (wr wq : Bool) (w c : UInt8) : Bool :=
  w != 0 && c != 0 && c < 128 &&
    (let a := tr (refTable wr wq) w
     let b := tr (queryTable wr wq) c
     if !wr && !wq then a == b else (a &&& b) != 0)

/-! ## `KmerFinder.__cinit__` -/

def bitAt (pos : Nat) : UInt64 := (1 : UInt64) <<< pos.toUInt64

/-- `needle_mask[c]` of a packed word that starts at bit `pos` -/
def maskFrom (m : UInt8 → UInt8 → Bool) : Bytes → Nat → UInt8 → UInt64
  | [], _, _ => 0
  | w :: ws, pos, c => (if m w c then bitAt pos else 0) ||| maskFrom m ws (pos + 1) c

def initMaskFrom : List Bytes → Nat → UInt64
  | [], _ => 0
  | w :: ws, off => bitAt off ||| initMaskFrom ws (off + w.length)

def foundMaskFrom : List Bytes → Nat → UInt64
  | [], _ => 0
  | w :: ws, off => bitAt (off + w.length - 1) ||| foundMaskFrom ws (off + w.length)

/-- greedy packing of the k-mers of one entry into masks of at most 64 positions (every k-mer is at most 64 long) -/
def packGo : List Bytes → Nat → List Bytes → List (List Bytes)
  | [], _, cur => if cur.isEmpty then [] else [cur.reverse]
  | k :: ks, off, cur =>
    if off + k.length ≤ 64 then packGo ks (off + k.length) (k :: cur)
    else cur.reverse :: packGo ks k.length [k]

def packWords (kmers : List Bytes) : List (List Bytes) := packGo kmers 0 []

/-- one `KmerSearchEntry` with its mask table: `words` are the k-mers packed into it, in order -/
structure MaskEntry where
  start : Int
  stop : Int               -- 0 = to the end of the sequence
  words : List Bytes
deriving Repr, BEq, DecidableEq

def MaskEntry.needle (e : MaskEntry) : Bytes := e.words.flatten
def MaskEntry.initMask (e : MaskEntry) : UInt64 := initMaskFrom e.words 0
def MaskEntry.foundMask (e : MaskEntry) : UInt64 := foundMaskFrom e.words 0

inductive Finder where
  | mock                                     -- `MockKmerFinder`
  | masks (wr wq : Bool) (entries : List MaskEntry)
deriving Repr

/-- `KmerFinder(positions_and_kmers, ref_wildcards, query_wildcards)`; `none` = `ValueError`
    (a k-mer longer than 64 or not ASCII) -/
def mkFinder (entries : List Entry) : Option (List MaskEntry) :=
  if entries.any (fun e => e.kmers.any (fun k => k.length > 64 || k.any (· ≥ 128))) then none
  else some (entries.flatMap fun e => (packWords e.kmers).map fun ws => ⟨e.start, e.stop.getD 0, ws⟩)

/-! ## `kmers_present` -/

/-- `shift_and_multiple_is_present(haystack, …)` started with register `R` -/
def shiftAnd (mask : UInt8 → UInt64) (init found : UInt64) : Bytes → UInt64 → Bool
  | [], _ => false
  | c :: cs, R =>
    let R' := ((R <<< 1) ||| init) &&& mask c
    if R' &&& found != 0 then true else shiftAnd mask init found cs R'

/-- window arithmetic of `kmers_present` for a sequence of length `n`: `(start, search_length)`, `none` = `continue` -/
def windowOf (start stop : Int) (n : Nat) : Option (Nat × Nat) :=
  let n' : Int := n
  let start? : Option Int :=
    if start < 0 then some (if n' + start < 0 then 0 else n' + start)
    else if start > n' then none else some start
  match start? with
  | none => none
  | some st =>
    let stop? : Option Int :=
      if stop < 0 then (if n' + stop ≤ 0 then none else some (n' + stop))
      else if stop == 0 then some n' else some stop     -- a positive `stop` is not clamped to `n`
    match stop? with
    | none => none
    | some sp => if sp - st ≤ 0 then none else some (st.toNat, (sp - st).toNat)

/-- `len` bytes of memory from offset `st` of the buffer; zeros where the model knows nothing -/
def haystack (buf : Bytes) (st len : Nat) : Bytes :=
  let w := (buf.drop st).take len
  w ++ List.replicate (len - w.length) 0

def entryMask (wr wq : Bool) (e : MaskEntry) (c : UInt8) : UInt64 :=
  if c < 128 then maskFrom (kmerMatches wr wq) e.needle 0 c else 0

def entryPresent (wr wq : Bool) (e : MaskEntry) (read beyond : Bytes) : Bool :=
  match windowOf e.start e.stop read.length with
  | none => false
  | some (st, len) =>
    shiftAnd (entryMask wr wq e) e.initMask e.foundMask (haystack (read ++ beyond) st len) 0

/-- `kmer_finder.kmers_present(read)` when the memory behind the read holds `beyond` -/
def kmersPresent (f : Finder) (read beyond : Bytes) : Bool :=
  match f with
  | .mock => true
  | .masks wr wq entries => entries.any (fun e => entryPresent wr wq e read beyond)

/-! ## wiring: `_kmer_finder()` of each adapter class -/

/-- `(sequence, back_adapter, front_adapter, internal)` handed to `_make_kmer_finder`; `none` = the class returns
    `MockKmerFinder()` itself (anchored adapters without indels use a comparer) -/
def finderArgs (a : Adapter) : Option (Bytes × Bool × Bool × Bool) :=
  match a.ty with
  | .front => some (a.seq, a.forceAnywhere, true, true)
  | .rightmostFront => some (a.seq.reverse, true, a.forceAnywhere, true)
  | .back => some (a.seq, true, a.forceAnywhere, true)
  | .anywhere => some (a.seq, true, true, true)
  | .nonInternalFront => some (a.seq, a.forceAnywhere, true, false)
  | .nonInternalBack => some (a.seq, true, a.forceAnywhere, false)
  | .prefix => if !a.indels then none else some (a.seq, a.forceAnywhere, true, false)
  | .suffix => if !a.indels then none else some (a.seq, true, a.forceAnywhere, false)

/-- `positions_and_kmers` of the adapter's finder (`none` for the class-level mock finder) -/
def positionsFor (a : Adapter) : Option (Except KmerErr (List Entry)) :=
  (finderArgs a).map fun (s, b, f, i) => createPositionsAndKmers s a.minOverlap a.thr b f i

/-- `_make_kmer_finder(sequence, back_adapter, front_adapter, internal)` -/
def makeKmerFinder (a : Adapter) (s : Bytes) (b f i : Bool) : Finder :=
  match createPositionsAndKmers s a.minOverlap a.thr b f i with
  | .error _ => .mock   -- not reachable: `create_positions_and_kmers` never produces a middle search
  | .ok entries =>
    match mkFinder entries with
    | none => .mock            -- `except ValueError: return MockKmerFinder()`
    | some ms => .masks a.adapterWildcards a.readWildcards ms

/-- `self.kmer_finder` -/
def finderFor (a : Adapter) : Finder :=
  match finderArgs a with
  | none => .mock
  | some (s, b, f, i) => makeKmerFinder a s b f i

/-- the sequence `kmers_present` is called with (`RightmostFrontAdapter` reverses the read) -/
def finderInput (a : Adapter) (read : Bytes) : Bytes :=
  match a.ty with
  | .rightmostFront => read.reverse
  | _ => read

/-- `match_to` with the prefilter, as the code has it -/
def matchToFiltered (a : Adapter) (read beyond : Bytes) : Option SingleMatch :=
  if kmersPresent (finderFor a) (finderInput a read) beyond then matchTo a read else none

end Cutadapt.Kmer
