/-! # Model of `cutadapt/parser.py` (adapter specifications) and of `SingleAdapter.__init__`

Core Lean only.  Strings are `List Char` (ASCII; anything else is `Err.unsupported`, never a guess).
Every `raise` site of the Python code has its own `Err` constructor so that the *order of the checks* is part of
the model; `Err.cls` is the Python exception class and `Err.isCmdline` says whether `cli.adapters_from_args`
turns it into a `CommandLineError` (exit status 2).

Numbers are exact: `int(...)` gives `Value.int`, `float(...)` of `ddd.ddd` gives `Value.float ⟨mantissa, scale⟩`
(= mantissa / 10^scale).  The maximum error rate of a constructed adapter is the pair (`maxErrors`, `divisor`), i.e. the
exact rational `maxErrors / divisor`; binary64 rounding is done by the driver only.

Functions, in the order of the Python source:
`parseParams` (`parse_search_parameters`), `expandBraces` (`expand_braces`), `normalizeEllipsis`, `extractName`,
`parseRestrictions`, `parseASpec` (`AdapterSpecification.parse`), `ASpec.cls` (`_restriction_to_class`),
`makeAdapters` (`make_adapters_from_one_specification`), `makeAdapter`, `makeLinked`, `makeNotLinked`,
`fastaName` (`read_adapters_fasta`, the FASTA records themselves are a parameter), `construct` (the adapter classes'
`__init__` chains down to the aligner constructor's argument checks). -/
namespace Cutadapt.Parser

abbrev Str := List Char

/-- `cs!"abc"` is the literal list `['a','b','c']` (keeps kernel reduction away from `String`). -/
macro "cs!" s:str : term => do
  let cs : Array (Lean.TSyntax `term) := s.getString.toList.toArray.map (fun c => ⟨Lean.Syntax.mkCharLit c⟩)
  `([$cs,*])

/-! ## Errors -/

inductive Err
  | unknownParameter      -- KeyError   "Unknown parameter '…'"
  | noValue               -- ValueError "No value given for key '…'"
  | badNumber             -- ValueError from `float(value)`
  | duplicateKey          -- KeyError   "Key '…' specified twice"
  | optionalRequired      -- ValueError "'optional' and 'required' cannot be specified at the same time"
  | indelsNoindels        -- ValueError "'indels' and 'noindels' cannot be specified at the same time"
  | braceAfterChar        -- ValueError '"{" must be used after a character'
  | braceCloseHere        -- ValueError '"}" cannot be used here'
  | braceValue            -- ValueError "Value … invalid"
  | braceInt              -- ValueError from `int(s)` inside braces
  | braceExpectedClose    -- ValueError '"}" expected'
  | braceExpectedOpen     -- ValueError 'Expected "{"'
  | braceUnterminated     -- ValueError "Unterminated expression"
  | ellipsisAnywhere      -- ValueError 'No ellipsis ("...") allowed in "anywhere" adapters'
  | invalidSpec           -- ValueError "Invalid adapter specification"
  | multipleRestrictions  -- ValueError "You cannot use multiple placement restrictions …"
  | front5                -- ValueError "Allowed placement restrictions for a 5' adapter are XADAPTER and ^ADAPTER"
  | back3                 -- ValueError "Allowed placement restrictions for a 3' adapter are ADAPTERX and ADAPTER$"
  | anywhereRestriction   -- ValueError "Placement restrictions (with X, ^, $) not supported for 'anywhere' (-b) adapters"
  | anchoredMinOverlap    -- ValueError "Setting 'min_overlap=' (or 'o=') for anchored adapters is not possible …"
  | rightmost             -- ValueError "'rightmost' only allowed with regular 5' adapters"
  | linkedAnywhere        -- ValueError "'anywhere' (-b) adapters may not be linked"
  | requiredOutsideLinked -- ValueError "'required' and 'optional' can only be used within linked adapters"
  | emptySequence         -- ValueError "Adapter sequence is empty"
  | invalidCharacter      -- InvalidCharacter
  | onlyN                 -- ValueError "Cannot have only N wildcards in the sequence" (aligner constructor)
  | rateRange             -- ValueError "max_error_rate must be between 0 and 1" (PrefixComparer/SuffixComparer)
  | typeError             -- TypeError: unexpected keyword argument / non-integer min_overlap (not caught by cli.py)
  | unsupported           -- input outside the modelled fragment (non-ASCII, exotic number literals)
  deriving DecidableEq, Repr, Inhabited

inductive ErrClass | keyError | valueError | invalidCharacter | typeError | unsupported
  deriving DecidableEq, Repr

def Err.cls : Err → ErrClass
  | .unknownParameter | .duplicateKey => .keyError
  | .invalidCharacter => .invalidCharacter
  | .typeError => .typeError
  | .unsupported => .unsupported
  | _ => .valueError

/-- `cli.adapters_from_args` catches `KeyError`, `ValueError`, `InvalidCharacter` and re-raises `CommandLineError`,
    for which `cli.main` prints the message and exits with status 2. -/
def Err.isCmdline (e : Err) : Bool :=
  match e.cls with
  | .keyError | .valueError | .invalidCharacter => true
  | _ => false

/-! ## Values -/

/-- exact decimal `mant / 10^scale` -/
structure Dec where
  mant : Nat
  scale : Nat
  deriving DecidableEq, Repr, Inhabited

inductive Value
  | bool (b : Bool)
  | int (n : Nat)
  | float (d : Dec)
  deriving DecidableEq, Repr, Inhabited

/-- numerator of the numeric value (Python: `True == 1`) over the denominator `Value.den` -/
def Value.numer : Value → Nat
  | .bool b => if b then 1 else 0
  | .int n => n
  | .float d => d.mant
def Value.den : Value → Nat
  | .float d => 10 ^ d.scale
  | _ => 1
def Value.truthy (v : Value) : Bool := v.numer != 0
/-- `v >= 1` -/
def Value.ge1 (v : Value) : Bool := decide (v.den ≤ v.numer)
/-- `v > k` for an integer `k` -/
def Value.gtNat (v : Value) (k : Nat) : Bool := decide (k * v.den < v.numer)
def Value.isFloat : Value → Bool
  | .float _ => true
  | _ => false

/-! ## Parameter dictionaries -/

inductive Key
  | maxErrors | minOverlap | anywhere | required | optional | indels | noindels | rightmost
  | readWildcards | adapterWildcards | forceAnywhere
  deriving DecidableEq, Repr, Inhabited

/-- A Python dict with these keys: association list, first entry for a key counts; keys are kept unique by the operations. -/
abbrev Params := List (Key × Value)

def Params.get : Params → Key → Option Value
  | [], _ => none
  | (k, v) :: r, k' => if k = k' then some v else Params.get r k'
def Params.has (p : Params) (k : Key) : Bool := (p.get k).isSome
def Params.erase (p : Params) (k : Key) : Params := p.filter (fun kv => kv.1 ≠ k)
/-- `p[k] = v` -/
def Params.set (p : Params) (k : Key) (v : Value) : Params := (k, v) :: p.erase k
/-- truth value of `p.get(k, False)` -/
def Params.flag (p : Params) (k : Key) : Bool :=
  match p.get k with
  | some v => v.truthy
  | none => false
/-- `d = base.copy(); d.update(over)` -/
def Params.update (base over : Params) : Params := over ++ base.filter (fun kv => !over.has kv.1)

/-! ## Characters and Python string methods (ASCII) -/

def isDigit (c : Char) : Bool := decide ('0' ≤ c ∧ c ≤ '9')
def digitVal (c : Char) : Nat := c.toNat - 48
def parseDigits (s : Str) : Nat := s.foldl (fun a c => a * 10 + digitVal c) 0

/-- `str.isspace` on ASCII: TAB..CR, FS..US, space -/
def isSpace (c : Char) : Bool := c = ' ' || (9 ≤ c.toNat && c.toNat ≤ 13) || (28 ≤ c.toNat && c.toNat ≤ 31)
def lstrip (s : Str) : Str := s.dropWhile isSpace
def rstrip (s : Str) : Str := (s.reverse.dropWhile isSpace).reverse
/-- `s.strip()` -/
def strip (s : Str) : Str := rstrip (lstrip s)

def upperChar (c : Char) : Char := if 'a' ≤ c ∧ c ≤ 'z' then Char.ofNat (c.toNat - 32) else c

/-- `s.partition(c)` for a one-character separator: (before, found, after) -/
def partition1 (c : Char) : Str → Str × Bool × Str
  | [] => ([], false, [])
  | x :: r =>
    if x = c then ([], true, r)
    else
      let p := partition1 c r
      (x :: p.1, p.2.1, p.2.2)

/-- `s.split(c)` -/
def splitOn1 (c : Char) : Str → List Str
  | [] => [[]]
  | x :: r =>
    if x = c then [] :: splitOn1 c r
    else match splitOn1 c r with
      | h :: t => (x :: h) :: t
      | [] => [[x]]

/-- `s.partition("...")` -/
def partDots : Str → Str × Bool × Str
  | [] => ([], false, [])
  | x :: r =>
    match x, r with
    | '.', '.' :: '.' :: r' => ([], true, r')
    | _, _ =>
      let p := partDots r
      (x :: p.1, p.2.1, p.2.2)

def startsWith (s pre : Str) : Bool := pre.isPrefixOf s

/-! ## Numbers: `int(value)`, else `float(value)` -/

/-- characters that can occur in some Python int/float literal that this model does not parse -/
def exoticNumChar (c : Char) : Bool :=
  isDigit c || c = '.' || c = '+' || c = '-' || c = '_' || (cs!"eEinfatyINFATY").contains c

/-- `int(s)` falling back to `float(s)` for a stripped, non-empty `s`.  Modelled literals: `ddd`, `ddd.ddd`, `ddd.`, `.ddd`.
    Other strings that Python might still accept (signs, exponents, underscores, inf, nan) are `unsupported`. -/
def pyNumber (s : Str) : Except Err Value :=
  if s ≠ [] ∧ s.all isDigit then .ok (.int (parseDigits s))
  else
    let ip := s.takeWhile isDigit
    match s.dropWhile isDigit with
    | '.' :: fr =>
      if fr.all isDigit ∧ (ip ≠ [] ∨ fr ≠ []) then .ok (.float ⟨parseDigits (ip ++ fr), fr.length⟩)
      else if s.all exoticNumChar then .error .unsupported else .error .badNumber
    | _ => if s.all exoticNumChar then .error .unsupported else .error .badNumber

/-- `int(s)` inside braces: plain digits; whitespace/sign/underscore forms are `unsupported`; anything else is a `ValueError`. -/
def pyBraceInt (s : Str) : Except Err Nat :=
  if s ≠ [] ∧ s.all isDigit then .ok (parseDigits s)
  else if s.any (fun c => isSpace c || c = '+' || c = '-' || c = '_') then .error .unsupported
  else .error .braceInt

/-! ## `parse_search_parameters` -/

def keyOfName (s : Str) : Option Key :=
  if s = cs!"e" ∨ s = cs!"error_rate" ∨ s = cs!"max_error_rate" ∨ s = cs!"max_errors" then some .maxErrors
  else if s = cs!"o" ∨ s = cs!"min_overlap" then some .minOverlap
  else if s = cs!"anywhere" then some .anywhere
  else if s = cs!"required" then some .required
  else if s = cs!"optional" then some .optional
  else if s = cs!"indels" then some .indels
  else if s = cs!"noindels" then some .noindels
  else if s = cs!"rightmost" then some .rightmost
  else none

/-- body of the `for field in fields` loop -/
def parseField (result : Params) (field : Str) : Except Err Params :=
  let field := strip field
  if field = [] then .ok result
  else
    let p := partition1 '=' field
    match keyOfName (strip p.1) with
    | none => .error .unknownParameter
    | some k =>
      if p.2.1 ∧ p.2.2 = [] then .error .noValue
      else
        let value := strip p.2.2
        match (if value = [] then .ok (.bool true) else pyNumber value) with
        | .error e => .error e
        | .ok v => if result.has k then .error .duplicateKey else .ok (result ++ [(k, v)])

def parseFields : Params → List Str → Except Err Params
  | result, [] => .ok result
  | result, f :: fs =>
    match parseField result f with
    | .error e => .error e
    | .ok r => parseFields r fs

/-- the checks and rewrites after the loop -/
def postParams (r : Params) : Except Err Params :=
  if r.has .optional ∧ r.has .required then .error .optionalRequired
  else if r.has .indels ∧ r.has .noindels then .error .indelsNoindels
  else
    let r := if r.has .optional then r.erase .optional ++ [(.required, .bool false)] else r
    let r := if r.has .noindels then r.erase .noindels ++ [(.indels, .bool false)] else r
    .ok r

def parseParams (spec : Str) : Except Err Params :=
  match parseFields [] (splitOn1 ';' spec) with
  | .error e => .error e
  | .ok r => postParams r

/-! ## `expand_braces`

The Python loop runs over `re.split("([{}])", sequence)` without empty strings, i.e. over maximal brace-free chunks and single
braces.  Character-level reading of the same automaton: `prev is None` = `none`, `prev` a chunk = `str` (further plain
characters belong to the same chunk), `prev == "{"` = `open acc` where `acc` collects (reversed) the chunk that `int()` will
see; the state `isinstance(prev, int)` lasts only until the next token, which is a brace or the end of the input.
The result is accumulated reversed. -/

inductive BState
  | none
  | str
  | open (acc : Str)

/-- `int(chunk)` and the range check `0 <= prev <= 10000` -/
def braceCount (acc : Str) : Except Err Nat :=
  match pyBraceInt acc.reverse with
  | .error e => .error e
  | .ok n => if n ≤ 10000 then .ok n else .error .braceValue

def braceGo : BState → Str → Str → Except Err Str
  | .none, racc, [] => .ok racc.reverse
  | .str, racc, [] => .ok racc.reverse
  | .open acc, _, [] =>
    if acc = [] then .error .braceUnterminated
    else
      match braceCount acc with
      | .error e => .error e
      | .ok _ => .error .braceUnterminated
  | .none, racc, c :: r =>
    if c = '{' then .error .braceAfterChar
    else if c = '}' then .error .braceCloseHere
    else braceGo .str (c :: racc) r
  | .str, racc, c :: r =>
    if c = '{' then braceGo (.open []) racc r
    else if c = '}' then .error .braceExpectedOpen
    else braceGo .str (c :: racc) r
  | .open acc, racc, c :: r =>
    if c = '{' ∨ c = '}' then
      if acc = [] then .error .braceInt     -- `int("{")`, `int("}")`
      else
        match braceCount acc with
        | .error e => .error e
        | .ok n =>
          if c = '}' then
            match racc with
            | x :: racc' => braceGo .none (List.replicate n x ++ racc') r
            | [] => .error .unsupported   -- unreachable: a chunk precedes every "{"
          else .error .braceExpectedClose
    else braceGo (.open (c :: acc)) racc r

def expandBraces (s : Str) : Except Err Str := braceGo .none [] s

/-! ## `AdapterSpecification` -/

inductive AType | front | back | anywhere
  deriving DecidableEq, Repr, Inhabited

inductive Restriction | anchored | noninternal
  deriving DecidableEq, Repr

inductive Cls
  | front | rightmostFront | back | anywhere | nonInternalFront | nonInternalBack | prefix | suffix
  deriving DecidableEq, Repr, Inhabited

/-- `_normalize_ellipsis` (called when one side of "..." is empty) -/
def normalizeEllipsis (spec1 spec2 : Str) (t : AType) : Except Err (Str × AType) :=
  if t = .anywhere then .error .ellipsisAnywhere
  else if spec1 = [] then
    if t = .back then .ok (spec2, t) else .error .invalidSpec
  else if spec2 = [] then
    if t = .back then .ok (spec1, .front) else .ok (spec1, t)
  else .error .invalidSpec   -- "Expected either spec1 or spec2": not reachable from `makeAdapter`

/-- `_extract_name` -/
def extractName (spec : Str) : Option Str × Str :=
  let p := partition1 '=' spec
  if p.2.1 then (some (strip p.1), strip p.2.2) else (none, strip spec)

def isX (c : Char) : Bool := c = 'X' || c = 'x'

/-- one end of `_parse_restrictions`, on the string read from that end (`anchor` is `^` or `$`); `none` = `ValueError` -/
def restrictEnd (anchor : Char) (s : Str) : Option (Option Restriction × Str) :=
  let p : Option Restriction × Str :=
    match s with
    | c :: t => if c = anchor then (some .anchored, t) else (none, s)
    | [] => (none, s)
  match p.2 with
  | c :: _ =>
    if isX c then (if p.1.isSome then none else some (some .noninternal, p.2.dropWhile isX))
    else some p
  | [] => some p

/-- `_parse_restrictions`; `none` = any of its three `ValueError`s -/
def parseRestrictions (spec : Str) : Option (Option Restriction × Option Restriction × Str) :=
  match restrictEnd '^' spec with
  | none => none
  | some (f, s) =>
    match restrictEnd '$' s.reverse with
    | none => none
    | some (b, sr) => if f.isSome ∧ b.isSome then none else some (f, b, sr.reverse)

structure ASpec where
  name : Option Str
  restriction : Option Restriction
  sequence : Str
  parameters : Params
  atype : AType
  rightmost : Bool
  deriving DecidableEq, Repr

/-- `AdapterSpecification.parse` after `parse_search_parameters` and `expand_braces`: `sq` is the expanded specification
    (still with `^`, `$`, `X`), `parameters0` the parsed search parameters -/
def aspecCore (name : Option Str) (sq : Str) (parameters0 : Params) (t : AType) : Except Err ASpec :=
  let rightmost : Bool := parameters0.flag .rightmost
  let parameters := parameters0.erase .rightmost
  if sq.all (· = 'X') then .ok ⟨name, none, sq, [], t, false⟩
  else
    match parseRestrictions sq with
    | none => .error .multipleRestrictions
    | some (fr, br, sq) =>
      if t = .front ∧ br.isSome then .error .front5
      else if t = .back ∧ fr.isSome then .error .back3
      else
        let restriction := if fr.isSome then fr else br
        if t = .anywhere ∧ restriction.isSome then .error .anywhereRestriction
        else if parameters.has .minOverlap ∧ restriction = some .anchored then .error .anchoredMinOverlap
        else
          let parameters :=
            match parameters.get .minOverlap with
            | some v => if v.gtNat sq.length then parameters.map (fun kv => if kv.1 = .minOverlap then (kv.1, .int sq.length) else kv)
                        else parameters
            | none => parameters
          if rightmost ∧ (t ≠ .front ∨ restriction.isSome) then .error .rightmost
          else .ok ⟨name, restriction, sq, parameters, t, rightmost⟩

/-- `AdapterSpecification.parse` -/
def parseASpec (spec : Str) (t : AType) : Except Err ASpec :=
  let p := partition1 ';' spec
  let ne := extractName p.1
  match parseParams p.2.2 with
  | .error e => .error e
  | .ok parameters0 =>
    match expandBraces ne.2 with
    | .error e => .error e
    | .ok sq => aspecCore ne.1 sq parameters0 t

/-- `_restriction_to_class` (combinations excluded by `parse` map to the unrestricted class) -/
def clsOf (t : AType) (r : Option Restriction) (rightmost : Bool) : Cls :=
  match t, r with
  | .front, none => if rightmost then .rightmostFront else .front
  | .front, some .anchored => if rightmost then .rightmostFront else .prefix
  | .front, some .noninternal => if rightmost then .rightmostFront else .nonInternalFront
  | .back, none => .back
  | .back, some .anchored => .suffix
  | .back, some .noninternal => .nonInternalBack
  | .anywhere, _ => .anywhere

def ASpec.cls (a : ASpec) : Cls := clsOf a.atype a.restriction a.rightmost

/-! ## The adapter objects (`SingleAdapter.__init__` and subclasses, `LinkedAdapter`) -/

structure Single where
  cls : Cls
  /-- upper-cased, U→T, I→N -/
  sequence : Str
  /-- `none`: the name is auto-generated -/
  name : Option Str
  /-- `max_error_rate` is exactly `maxErrors / divisor` -/
  maxErrors : Value
  divisor : Nat
  minOverlap : Value
  indels : Value
  readWildcards : Value
  adapterWildcards : Bool
  forceAnywhere : Bool
  deriving DecidableEq, Repr

inductive AdapterDesc
  | single (a : Single)
  | linked (front back : Single) (frontRequired backRequired : Value) (name : Option Str)
  deriving DecidableEq, Repr

def normChar (c : Char) : Char :=
  let u := upperChar c
  if u = 'U' then 'T' else if u = 'I' then 'N' else u
/-- `sequence.upper().replace("U", "T").replace("I", "N")` -/
def normSeq (s : Str) : Str := s.map normChar

def isIupac (c : Char) : Bool := (cs!"ABCDGHKMNRSTUVWXY").contains c
def isACGT (c : Char) : Bool := (cs!"ACGT").contains c
def countN (s : Str) : Nat := s.countP (· = 'N')

/-- keyword arguments accepted by the class constructors -/
def kwAllowed (cls : Cls) (k : Key) : Bool :=
  match k with
  | .maxErrors | .minOverlap | .readWildcards | .adapterWildcards | .indels => true
  | .forceAnywhere => cls != .anywhere
  | _ => false

/-- `cls(sequence, name=name, **kw)`: the `__init__` chain (`PrefixAdapter`/`SuffixAdapter` force `min_overlap`,
    `FrontAdapter`/`BackAdapter` pop `force_anywhere`, then `SingleAdapter.__init__`), followed by the argument checks of the
    aligner that `self._aligner()` constructs (`Aligner.__cinit__`, `PrefixComparer.__init__`). -/
def construct (cls : Cls) (sequence : Str) (name : Option Str) (kw : Params) : Except Err Single :=
  let anchored := cls = .prefix ∨ cls = .suffix
  if kw.any (fun kv => !kwAllowed cls kv.1) then .error .typeError
  else
    let forceAnywhere : Bool := kw.flag .forceAnywhere
    let maxErrors := (kw.get .maxErrors).getD (.float ⟨1, 1⟩)
    -- `PrefixAdapter`/`SuffixAdapter`: `kwargs["min_overlap"] = len(sequence)`
    let minOverlap := if anchored then .int sequence.length else (kw.get .minOverlap).getD (.int 3)
    let readWildcards := (kw.get .readWildcards).getD (.bool false)
    let adapterWildcards := (kw.get .adapterWildcards).getD (.bool true)
    let indels := (kw.get .indels).getD (.bool true)
    let sq := normSeq sequence
    if sq = [] then .error .emptySequence
    else
      let nonN := sq.length - countN sq
      let divisor := if maxErrors.ge1 ∧ nonN ≠ 0 then nonN else 1
      -- min(min_overlap, len(sequence))
      let minOverlap := if minOverlap.gtNat sq.length then .int sq.length else minOverlap
      if adapterWildcards.truthy ∧ ¬ sq.all isIupac then .error .invalidCharacter
      else
        let aw := adapterWildcards.truthy && !sq.all isACGT
        let r : Single := ⟨cls, sq, name, maxErrors, divisor, minOverlap, indels, readWildcards, aw, forceAnywhere⟩
        if anchored ∧ ¬ indels.truthy then
          -- PrefixComparer / SuffixComparer
          if aw ∧ nonN = 0 then .error .onlyN
          else if maxErrors.den * divisor < maxErrors.numer then .error .rateRange
          else .ok r
        else
          -- Aligner(..., min_overlap=...) takes a C int
          if minOverlap.isFloat then .error .typeError
          else if aw ∧ nonN = 0 then .error .onlyN
          else .ok r

/-! ## `make_adapter` and friends -/

def optOr (a b : Option Str) : Option Str := match a with | some x => some x | none => b

/-- `_make_not_linked_adapter` -/
def makeNotLinked (spec : Str) (name : Option Str) (t : AType) (sp : Params) : Except Err AdapterDesc :=
  match parseASpec spec t with
  | .error e => .error e
  | .ok a =>
    let cls := a.cls
    let anyw : Bool := a.parameters.flag .anywhere
    let ps := a.parameters.erase .anywhere
    let ps := if anyw ∧ (cls = .front ∨ cls = .back ∨ cls = .rightmostFront) then ps ++ [(.forceAnywhere, .bool true)] else ps
    if ps.has .required then .error .requiredOutsideLinked
    else
      match construct cls a.sequence (optOr name a.name) (sp.update ps) with
      | .error e => .error e
      | .ok s => .ok (.single s)

/-- `_make_linked_adapter` -/
def makeLinked (spec1 spec2 : Str) (name : Option Str) (t : AType) (sp : Params) : Except Err AdapterDesc :=
  if t = .anywhere then .error .linkedAnywhere
  else
    match parseASpec spec1 .front with
    | .error e => .error e
    | .ok f =>
      match parseASpec spec2 .back with
      | .error e => .error e
      | .ok b =>
        let name := optOr name f.name
        let fp := sp.update f.parameters
        let bp := sp.update b.parameters
        let fr0 := if t = .front then true else f.restriction.isSome
        let br0 := if t = .front then true else b.restriction.isSome
        let fr := (fp.get .required).getD (.bool fr0)
        let br := (bp.get .required).getD (.bool br0)
        match construct f.cls f.sequence (some (cs!"linked_front")) (fp.erase .required) with
        | .error e => .error e
        | .ok fa =>
          match construct b.cls b.sequence (some (cs!"linked_back")) (bp.erase .required) with
          | .error e => .error e
          | .ok ba => .ok (.linked fa ba fr br name)

/-- `make_adapter` -/
def makeAdapter (spec : Str) (t : AType) (sp : Params) (name : Option Str) : Except Err AdapterDesc :=
  let p := partDots spec
  if p.2.1 ∧ p.1 ≠ [] ∧ p.2.2 ≠ [] then makeLinked p.1 p.2.2 name t sp
  else if p.2.1 then
    match normalizeEllipsis p.1 p.2.2 t with
    | .error e => .error e
    | .ok (s, t') => makeNotLinked s name t' sp
  else makeNotLinked p.1 name t sp

/-- `header = record.name.split(None, 1); name = header[0] if header else None` -/
def fastaName (header : Str) : Option Str :=
  match lstrip header with
  | [] => none
  | h => some (h.takeWhile (fun c => !isSpace c))

def mapMExcept (f : α → Except Err β) : List α → Except Err (List β)
  | [] => .ok []
  | x :: xs =>
    match f x with
    | .error e => .error e
    | .ok y =>
      match mapMExcept f xs with
      | .error e => .error e
      | .ok ys => .ok (y :: ys)

/-- `list(make_adapters_from_one_specification(spec, adapter_type, search_parameters))`; `records` are the
    `(record.name, record.sequence)` pairs that dnaio reads from the FASTA file named in a `file:` specification. -/
def makeAdapters (spec : Str) (t : AType) (sp : Params) (records : List (Str × Str)) : Except Err (List AdapterDesc) :=
  let isFile := startsWith spec (cs!"file:") || startsWith spec (cs!"^file:") || startsWith spec (cs!"file$:")
  if isFile then
    let pre : Str := if startsWith spec (cs!"^") then ['^'] else []
    let suf : Str := if startsWith spec (cs!"^") then [] else if startsWith spec (cs!"file$:") then ['$'] else []
    -- the three branches leave `spec` = "file:" ++ rest
    let rest := if startsWith spec (cs!"^") then spec.drop 6 else if startsWith spec (cs!"file$:") then spec.drop 6 else spec.drop 5
    let p := partition1 ';' rest
    match parseParams p.2.2 with
    | .error e => .error e
    | .ok fp =>
      let parameters := sp.update fp
      mapMExcept (fun r => makeAdapter (pre ++ r.2 ++ suf) t parameters (fastaName r.1)) records
  else
    match makeAdapter spec t sp none with
    | .error e => .error e
    | .ok a => .ok [a]

/-! ## Entry point with the global options of the command line -/

structure Globals where
  /-- `-e` (argparse `type=float`) -/
  maxErrors : Value
  /-- `-O` -/
  minOverlap : Value
  /-- `--match-read-wildcards` -/
  readWildcards : Bool
  /-- not `-N` -/
  adapterWildcards : Bool
  /-- not `--no-indels` -/
  indels : Bool
  deriving DecidableEq, Repr

/-- the `search_parameters` dict of `cli.adapters_from_args` -/
def Globals.toParams (g : Globals) : Params :=
  [(.maxErrors, g.maxErrors), (.minOverlap, g.minOverlap), (.readWildcards, .bool g.readWildcards),
   (.adapterWildcards, .bool g.adapterWildcards), (.indels, .bool g.indels)]

def isAscii (s : Str) : Bool := s.all (fun c => c.toNat < 128)

/-- What `-a`/`-g`/`-b SPEC` builds (`t` = back/front/anywhere). -/
def parse (spec : Str) (t : AType) (g : Globals) (records : List (Str × Str)) : Except Err (List AdapterDesc) :=
  if isAscii spec ∧ records.all (fun r => isAscii r.1 && isAscii r.2) then makeAdapters spec t g.toParams records
  else .error .unsupported

end Cutadapt.Parser
